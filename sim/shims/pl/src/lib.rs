//! parking_lot API subset over simrt.
use simrt::{Event, RawLock};
use std::cell::UnsafeCell;
use std::marker::PhantomData;
use std::ops::{Deref, DerefMut};
use std::sync::Arc;

pub struct RawMutex;
pub struct RawRwLock;

pub struct Mutex<T: ?Sized> { raw: RawLock, data: UnsafeCell<T> }
unsafe impl<T: ?Sized + Send> Send for Mutex<T> {}
unsafe impl<T: ?Sized + Send> Sync for Mutex<T> {}

impl<T> Mutex<T> {
    pub const fn new(t: T) -> Self { Mutex { raw: RawLock::new(), data: UnsafeCell::new(t) } }
    pub fn into_inner(self) -> T { self.data.into_inner() }
}
impl<T> From<T> for Mutex<T> { fn from(t: T) -> Self { Mutex::new(t) } }
impl<T: Default> Default for Mutex<T> { fn default() -> Self { Mutex::new(T::default()) } }
impl<T: ?Sized> Mutex<T> {
    pub fn lock(&self) -> MutexGuard<'_, T> { self.raw.lock_exclusive(); MutexGuard { m: self } }
    pub fn try_lock(&self) -> Option<MutexGuard<'_, T>> {
        if self.raw.try_lock_exclusive() { Some(MutexGuard { m: self }) } else { None }
    }
    pub fn get_mut(&mut self) -> &mut T { self.data.get_mut() }
    pub fn lock_arc(self: &Arc<Self>) -> ArcMutexGuard<RawMutex, T> {
        self.raw.lock_exclusive();
        ArcMutexGuard { m: self.clone(), _p: PhantomData }
    }
}
pub struct MutexGuard<'a, T: ?Sized> { m: &'a Mutex<T> }
unsafe impl<'a, T: ?Sized + Send> Send for MutexGuard<'a, T> {}
unsafe impl<'a, T: ?Sized + Sync> Sync for MutexGuard<'a, T> {}
impl<'a, T: ?Sized> Deref for MutexGuard<'a, T> { type Target = T; fn deref(&self) -> &T { unsafe { &*self.m.data.get() } } }
impl<'a, T: ?Sized> DerefMut for MutexGuard<'a, T> { fn deref_mut(&mut self) -> &mut T { unsafe { &mut *self.m.data.get() } } }
impl<'a, T: ?Sized> Drop for MutexGuard<'a, T> { fn drop(&mut self) { self.m.raw.unlock_exclusive(); } }

pub struct ArcMutexGuard<R, T: ?Sized> { m: Arc<Mutex<T>>, _p: PhantomData<R> }
unsafe impl<R, T: ?Sized + Send> Send for ArcMutexGuard<R, T> {}
unsafe impl<R, T: ?Sized + Sync> Sync for ArcMutexGuard<R, T> {}
impl<R, T: ?Sized> Deref for ArcMutexGuard<R, T> { type Target = T; fn deref(&self) -> &T { unsafe { &*self.m.data.get() } } }
impl<R, T: ?Sized> DerefMut for ArcMutexGuard<R, T> { fn deref_mut(&mut self) -> &mut T { unsafe { &mut *self.m.data.get() } } }
impl<R, T: ?Sized> Drop for ArcMutexGuard<R, T> { fn drop(&mut self) { self.m.raw.unlock_exclusive(); } }

pub struct RwLock<T: ?Sized> { raw: RawLock, data: UnsafeCell<T> }
unsafe impl<T: ?Sized + Send> Send for RwLock<T> {}
unsafe impl<T: ?Sized + Send + Sync> Sync for RwLock<T> {}
impl<T> RwLock<T> { pub const fn new(t: T) -> Self { RwLock { raw: RawLock::new(), data: UnsafeCell::new(t) } } }
impl<T: ?Sized> RwLock<T> {
    pub fn read(&self) -> RwLockReadGuard<'_, T> { self.raw.lock_shared(); RwLockReadGuard { l: self } }
    pub fn write(&self) -> RwLockWriteGuard<'_, T> { self.raw.lock_exclusive(); RwLockWriteGuard { l: self } }
    pub fn try_read(&self) -> Option<RwLockReadGuard<'_, T>> { if self.raw.try_lock_shared() { Some(RwLockReadGuard { l: self }) } else { None } }
    pub fn try_write(&self) -> Option<RwLockWriteGuard<'_, T>> { if self.raw.try_lock_exclusive() { Some(RwLockWriteGuard { l: self }) } else { None } }
    pub fn read_arc(self: &Arc<Self>) -> ArcRwLockReadGuard<RawRwLock, T> { self.raw.lock_shared(); ArcRwLockReadGuard { l: self.clone(), _p: PhantomData } }
    pub fn write_arc(self: &Arc<Self>) -> ArcRwLockWriteGuard<RawRwLock, T> { self.raw.lock_exclusive(); ArcRwLockWriteGuard { l: self.clone(), _p: PhantomData } }
    pub fn get_mut(&mut self) -> &mut T { self.data.get_mut() }
}
pub struct RwLockReadGuard<'a, T: ?Sized> { l: &'a RwLock<T> }
impl<'a, T: ?Sized> Deref for RwLockReadGuard<'a, T> { type Target = T; fn deref(&self) -> &T { unsafe { &*self.l.data.get() } } }
impl<'a, T: ?Sized> Drop for RwLockReadGuard<'a, T> { fn drop(&mut self) { self.l.raw.unlock_shared(); } }
pub struct RwLockWriteGuard<'a, T: ?Sized> { l: &'a RwLock<T> }
impl<'a, T: ?Sized> Deref for RwLockWriteGuard<'a, T> { type Target = T; fn deref(&self) -> &T { unsafe { &*self.l.data.get() } } }
impl<'a, T: ?Sized> DerefMut for RwLockWriteGuard<'a, T> { fn deref_mut(&mut self) -> &mut T { unsafe { &mut *self.l.data.get() } } }
impl<'a, T: ?Sized> Drop for RwLockWriteGuard<'a, T> { fn drop(&mut self) { self.l.raw.unlock_exclusive(); } }
pub struct ArcRwLockReadGuard<R, T: ?Sized> { l: Arc<RwLock<T>>, _p: PhantomData<R> }
unsafe impl<R, T: ?Sized + Sync + Send> Send for ArcRwLockReadGuard<R, T> {}
unsafe impl<R, T: ?Sized + Sync + Send> Sync for ArcRwLockReadGuard<R, T> {}
impl<R, T: ?Sized> Deref for ArcRwLockReadGuard<R, T> { type Target = T; fn deref(&self) -> &T { unsafe { &*self.l.data.get() } } }
impl<R, T: ?Sized> Drop for ArcRwLockReadGuard<R, T> { fn drop(&mut self) { self.l.raw.unlock_shared(); } }
pub struct ArcRwLockWriteGuard<R, T: ?Sized> { l: Arc<RwLock<T>>, _p: PhantomData<R> }
unsafe impl<R, T: ?Sized + Sync + Send> Send for ArcRwLockWriteGuard<R, T> {}
unsafe impl<R, T: ?Sized + Sync + Send> Sync for ArcRwLockWriteGuard<R, T> {}
impl<R, T: ?Sized> Deref for ArcRwLockWriteGuard<R, T> { type Target = T; fn deref(&self) -> &T { unsafe { &*self.l.data.get() } } }
impl<R, T: ?Sized> DerefMut for ArcRwLockWriteGuard<R, T> { fn deref_mut(&mut self) -> &mut T { unsafe { &mut *self.l.data.get() } } }
impl<R, T: ?Sized> Drop for ArcRwLockWriteGuard<R, T> { fn drop(&mut self) { self.l.raw.unlock_exclusive(); } }

pub mod lock_api { pub use super::{ArcMutexGuard, ArcRwLockReadGuard, ArcRwLockWriteGuard}; }

pub struct Condvar { ev: Event }
impl Condvar {
    pub const fn new() -> Self { Condvar { ev: Event::new() } }
    pub fn notify_one(&self) { self.ev.bump(); }
    pub fn notify_all(&self) { self.ev.bump(); }
    pub fn wait<T: ?Sized>(&self, guard: &mut MutexGuard<'_, T>) {
        let raw = &guard.m.raw;
        self.ev.wait_one(|| raw.unlock_exclusive());
        raw.lock_exclusive();
    }
    pub fn wait_while<T: ?Sized>(&self, guard: &mut MutexGuard<'_, T>, mut cond: impl FnMut(&mut T) -> bool) {
        while cond(&mut **guard) { self.wait(guard); }
    }
}
