//! thread_local::ThreadLocal keyed by shuttle task id.
use std::collections::HashMap;
pub struct ThreadLocal<T: Send> { map: std::sync::Mutex<HashMap<String, Box<T>>> }
unsafe impl<T: Send> Sync for ThreadLocal<T> {}
impl<T: Send> ThreadLocal<T> {
    pub fn new() -> Self { ThreadLocal { map: std::sync::Mutex::new(HashMap::new()) } }
    pub fn get_or(&self, f: impl FnOnce() -> T) -> &T {
        let id = format!("{:?}", simrt::shuttle::thread::current().id());
        let mut m = self.map.lock().unwrap_or_else(|e| e.into_inner());
        let b = m.entry(id).or_insert_with(|| Box::new(f()));
        let p: *const T = &**b;
        unsafe { &*p }
    }
}
