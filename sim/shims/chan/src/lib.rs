//! crossbeam-channel API subset (MPMC + Select) over simrt. One global Event signals any
//! channel activity; all blocking ops wait on it.
use simrt::shuttle::sync::Mutex as SMutex;
use simrt::Event;
use std::collections::VecDeque;
use std::sync::Arc;

pub use std::sync::mpsc::{RecvError, SendError, TryRecvError, TrySendError};

// The event must be per shuttle execution; keep it inside each channel and let Select
// wait on a process-global one created lazily per execution via shuttle lazy_static.
simrt::shuttle::lazy_static! { static ref ACTIVITY: Event = Event::new(); }
fn activity() -> &'static Event { &ACTIVITY }

struct Inner<T> { q: VecDeque<T>, cap: Option<usize>, senders: usize, receivers: usize }
struct Chan<T> { st: SMutex<Inner<T>> }

pub struct Sender<T> { ch: Arc<Chan<T>> }
pub struct Receiver<T> { ch: Arc<Chan<T>> }

pub fn unbounded<T>() -> (Sender<T>, Receiver<T>) { mk(None) }
pub fn bounded<T>(cap: usize) -> (Sender<T>, Receiver<T>) { mk(Some(cap.max(1))) }
fn mk<T>(cap: Option<usize>) -> (Sender<T>, Receiver<T>) {
    let ch = Arc::new(Chan { st: SMutex::new(Inner { q: VecDeque::new(), cap, senders: 1, receivers: 1 }) });
    (Sender { ch: ch.clone() }, Receiver { ch })
}

impl<T> Clone for Sender<T> { fn clone(&self) -> Self { self.ch.st.lock().unwrap_or_else(|e| e.into_inner()).senders += 1; Sender { ch: self.ch.clone() } } }
impl<T> Clone for Receiver<T> { fn clone(&self) -> Self { self.ch.st.lock().unwrap_or_else(|e| e.into_inner()).receivers += 1; Receiver { ch: self.ch.clone() } } }
impl<T> Drop for Sender<T> { fn drop(&mut self) { let last = { let mut g = self.ch.st.lock().unwrap_or_else(|e| e.into_inner()); g.senders -= 1; g.senders == 0 }; if last { activity().bump(); } } }
impl<T> Drop for Receiver<T> { fn drop(&mut self) { let last = { let mut g = self.ch.st.lock().unwrap_or_else(|e| e.into_inner()); g.receivers -= 1; g.receivers == 0 }; if last { activity().bump(); } } }

impl<T> Sender<T> {
    pub fn send(&self, t: T) -> Result<(), SendError<T>> {
        let mut slot = Some(t);
        let r = activity().wait_until(|| {
            let mut g = self.ch.st.lock().unwrap_or_else(|e| e.into_inner());
            if g.receivers == 0 { return Some(Err(SendError(slot.take().unwrap()))); }
            if g.cap.map_or(true, |c| g.q.len() < c) { g.q.push_back(slot.take().unwrap()); return Some(Ok(())); }
            None
        });
        if r.is_ok() { activity().bump(); }
        r
    }
    pub fn try_send(&self, t: T) -> Result<(), TrySendError<T>> {
        simrt::trace("try_send");
        let mut g = self.ch.st.lock().unwrap_or_else(|e| e.into_inner());
        if g.receivers == 0 { return Err(TrySendError::Disconnected(t)); }
        if g.cap.map_or(true, |c| g.q.len() < c) { g.q.push_back(t); drop(g); activity().bump(); Ok(()) } else { Err(TrySendError::Full(t)) }
    }
}
impl<T> Receiver<T> {
    fn poll(&self) -> Result<T, TryRecvError> {
        simrt::trace("poll");
        let mut g = self.ch.st.lock().unwrap_or_else(|e| e.into_inner());
        match g.q.pop_front() {
            Some(t) => Ok(t),
            None if g.senders == 0 => Err(TryRecvError::Disconnected),
            None => Err(TryRecvError::Empty),
        }
    }
    pub fn try_recv(&self) -> Result<T, TryRecvError> {
        let r = self.poll();
        if r.is_ok() { activity().bump(); }
        // Fairness: nomt busy-polls completions in places (merkle worker `update` loop). A failed
        // poll is where a real thread lets others progress; without this yield a strict-priority
        // scheduler (PCT) starves the I/O worker the poller is waiting for.
        if matches!(r, Err(TryRecvError::Empty)) { simrt::shuttle::thread::yield_now(); }
        r
    }
    pub fn recv(&self) -> Result<T, RecvError> {
        let r = activity().wait_until(|| match self.poll() {
            Ok(t) => Some(Ok(t)),
            Err(TryRecvError::Disconnected) => Some(Err(RecvError)),
            Err(TryRecvError::Empty) => None,
        });
        if r.is_ok() { activity().bump(); }
        r
    }
    pub fn is_ready(&self) -> bool { simrt::trace("is_ready"); let g = self.ch.st.lock().unwrap_or_else(|e| e.into_inner()); !g.q.is_empty() || g.senders == 0 }
    pub fn is_empty(&self) -> bool { self.ch.st.lock().unwrap_or_else(|e| e.into_inner()).q.is_empty() }
    pub fn len(&self) -> usize { self.ch.st.lock().unwrap_or_else(|e| e.into_inner()).q.len() }
    pub fn iter(&self) -> Iter<'_, T> { Iter { rx: self } }
    pub fn try_iter(&self) -> TryIter<'_, T> { TryIter { rx: self } }
}
pub struct Iter<'a, T> { rx: &'a Receiver<T> }
impl<'a, T> Iterator for Iter<'a, T> { type Item = T; fn next(&mut self) -> Option<T> { self.rx.recv().ok() } }
pub struct TryIter<'a, T> { rx: &'a Receiver<T> }
impl<'a, T> Iterator for TryIter<'a, T> { type Item = T; fn next(&mut self) -> Option<T> { self.rx.try_recv().ok() } }
pub struct IntoIter<T> { rx: Receiver<T> }
impl<T> Iterator for IntoIter<T> { type Item = T; fn next(&mut self) -> Option<T> { self.rx.recv().ok() } }
impl<T> IntoIterator for Receiver<T> { type Item = T; type IntoIter = IntoIter<T>; fn into_iter(self) -> IntoIter<T> { IntoIter { rx: self } } }
impl<'a, T> IntoIterator for &'a Receiver<T> { type Item = T; type IntoIter = Iter<'a, T>; fn into_iter(self) -> Iter<'a, T> { self.iter() } }

pub trait Readiness { fn ready_now(&self) -> bool; }
impl<T> Readiness for Receiver<T> { fn ready_now(&self) -> bool { self.is_ready() } }

pub struct Select<'a> { ops: Vec<&'a dyn Readiness> }
impl<'a> Select<'a> {
    pub fn new() -> Self { Select { ops: Vec::new() } }
    pub fn recv<T>(&mut self, r: &'a Receiver<T>) -> usize { self.ops.push(r); self.ops.len() - 1 }
    pub fn ready(&mut self) -> usize {
        let ops = &self.ops;
        activity().wait_until(|| ops.iter().position(|o| o.ready_now()))
    }
}

/// Helper for the `select!` macro shim: block until one of two receivers yields.
pub enum Either<A, B> { A(A), B(B) }
pub fn select2<A, B>(a: &Receiver<A>, b: &Receiver<B>) -> Either<Result<A, RecvError>, Result<B, RecvError>> {
    let r = activity().wait_until(|| {
        match a.poll() { Ok(v) => return Some(Either::A(Ok(v))), Err(TryRecvError::Disconnected) => return Some(Either::A(Err(RecvError))), _ => {} }
        match b.poll() { Ok(v) => return Some(Either::B(Ok(v))), Err(TryRecvError::Disconnected) => return Some(Either::B(Err(RecvError))), _ => {} }
        None
    });
    activity().bump();
    r
}
