pub mod channel { pub use sim_channel::*; }
#[macro_export]
macro_rules! select {
    (recv($a:expr) -> $pa:pat => $ba:expr, recv($b:expr) -> $pb:pat => $bb:expr $(,)?) => {
        match $crate::channel::select2(&$a, &$b) {
            $crate::channel::Either::A(__v) => { let $pa = __v; $ba }
            $crate::channel::Either::B(__v) => { let $pb = __v; $bb }
        }
    };
}
