//! threadpool API subset over shuttle threads.
use sim_channel::{unbounded, Receiver, Sender};
use simrt::shuttle::sync::Mutex as SMutex;
use simrt::shuttle::thread;
use simrt::Event;
use std::sync::Arc;

type Job = Box<dyn FnOnce() + Send + 'static>;
struct Shared { busy: SMutex<usize>, ev: Event }
#[derive(Clone)]
pub struct ThreadPool { tx: Sender<Job>, shared: Arc<Shared> }

pub struct Builder { n: usize, name: Option<String> }
impl Builder {
    pub fn new() -> Self { Builder { n: 1, name: None } }
    pub fn num_threads(mut self, n: usize) -> Self { self.n = n; self }
    pub fn thread_name(mut self, s: String) -> Self { self.name = Some(s); self }
    pub fn build(self) -> ThreadPool { ThreadPool::mk(self.name, self.n) }
}
impl ThreadPool {
    pub fn new(n: usize) -> Self { Self::mk(None, n) }
    pub fn with_name(name: String, n: usize) -> Self { Self::mk(Some(name), n) }
    fn mk(name: Option<String>, n: usize) -> Self {
        let (tx, rx): (Sender<Job>, Receiver<Job>) = unbounded();
        let shared = Arc::new(Shared { busy: SMutex::new(0), ev: Event::new() });
        for _ in 0..n {
            let rx = rx.clone();
            let shared = shared.clone();
            let mut b = thread::Builder::new();
            if let Some(ref nm) = name { b = b.name(nm.clone()); }
            b.spawn(move || {
                while let Ok(job) = rx.recv() {
                    let _ = std::panic::catch_unwind(std::panic::AssertUnwindSafe(job));
                    *shared.busy.lock().unwrap_or_else(|e| e.into_inner()) -= 1;
                    shared.ev.bump();
                }
            }).unwrap();
        }
        ThreadPool { tx, shared }
    }
    pub fn execute<F: FnOnce() + Send + 'static>(&self, f: F) {
        *self.shared.busy.lock().unwrap_or_else(|e| e.into_inner()) += 1;
        self.tx.send(Box::new(f)).expect("pool closed");
    }
    pub fn join(&self) {
        let shared = &self.shared;
        shared.ev.wait_until(|| if *shared.busy.lock().unwrap_or_else(|e| e.into_inner()) == 0 { Some(()) } else { None });
    }
}
