//! The seam between `nomt` (built with `--cfg nomt_verif`) and the simulator.
//!
//! `nomt/src/verif.rs` re-exports this module; call sites in nomt report every mutating file
//! operation *before* performing it. The observer may let it proceed, or answer with an errno
//! (the operation is then not performed and the error flows through the caller's own `?`).
//! All bookkeeping here uses std locks held for a few instructions; no PRNG, no clock.
use std::os::fd::RawFd;
use std::path::Path;
use std::sync::{Arc, RwLock};

#[derive(Debug)]
pub enum Op<'a> {
    /// pwrite-like: explicit offset.
    Write { off: u64, data: &'a [u8] },
    /// write at the file cursor (or at EOF for O_APPEND descriptors).
    Append { data: &'a [u8] },
    SetLen(u64),
    /// fsync / fdatasync of a regular file.
    Fsync,
    /// fsync of a directory descriptor.
    DirSync,
    Create(&'a Path),
    Unlink(&'a Path),
    Lock(&'a Path),
    Unlock,
    /// Only reported by the simulated I/O worker.
    Read { off: u64, len: usize },
}

#[derive(Debug, Clone, Copy, PartialEq, Eq)]
pub enum Verdict {
    Proceed,
    /// Do not perform the operation; fail with this errno.
    Fail(i32),
    /// I/O worker only: perform only the first `n` bytes and report a short count.
    Short(usize),
    /// I/O worker only: do not perform; report -1/EINTR.
    Eintr,
}

pub trait Observer: Send + Sync {
    fn event(&self, fd: RawFd, op: &Op<'_>, site: &'static str) -> Verdict;
    fn knob(&self, _name: &str) -> Option<u64> { None }
    fn probe(&self, _name: &'static str) {}
}

static OBS: RwLock<Option<Arc<dyn Observer>>> = RwLock::new(None);

pub fn install(o: Arc<dyn Observer>) { *OBS.write().unwrap() = Some(o); }
pub fn uninstall() { *OBS.write().unwrap() = None; }
fn obs() -> Option<Arc<dyn Observer>> { OBS.read().unwrap().clone() }

/// Report an operation and get the verdict (I/O worker flavour).
pub fn io_verdict(fd: RawFd, op: Op<'_>, site: &'static str) -> Verdict {
    match obs() { Some(o) => o.event(fd, &op, site), None => Verdict::Proceed }
}

/// Report an operation; `Err` means "do not perform it, return this error".
pub fn io(fd: RawFd, op: Op<'_>, site: &'static str) -> std::io::Result<()> {
    match io_verdict(fd, op, site) {
        Verdict::Fail(errno) => Err(std::io::Error::from_raw_os_error(errno)),
        _ => Ok(()),
    }
}

pub fn knob(name: &str) -> Option<u64> { obs().and_then(|o| o.knob(name)) }
pub fn probe(name: &'static str) { if let Some(o) = obs() { o.probe(name) } }

/// Spawn a named thread under the simulator's scheduler (replaces `std::thread::Builder`).
pub fn spawn_named<F: FnOnce() + Send + 'static>(name: String, f: F) {
    shuttle::thread::Builder::new().name(name).spawn(f).expect("spawn");
}
