//! Core primitives built only on shuttle Mutex+Condvar, unlockable from any task.
pub use shuttle;
pub mod hooks;
use shuttle::sync::{Condvar as SCondvar, Mutex as SMutex};

/// Optional per-process trace of every synchronisation operation (SIM_TRACE=<file>), used by the
/// determinism batch. Never draws from a PRNG and never reads a clock.
pub fn trace(op: &str) {
    use std::io::Write;
    SYNC_OPS.fetch_add(1, std::sync::atomic::Ordering::Relaxed);
    thread_local! { static F: std::cell::RefCell<Option<Option<std::io::BufWriter<std::fs::File>>>> = std::cell::RefCell::new(None); }
    F.with(|f| {
        let mut f = f.borrow_mut();
        let f = f.get_or_insert_with(|| std::env::var("SIM_TRACE").ok().map(|p| std::io::BufWriter::new(std::fs::File::create(p).unwrap())));
        if let Some(f) = f.as_mut() {
            let t = shuttle::thread::current();
            let _ = writeln!(f, "{:?} {} {}", t.id(), t.name().unwrap_or("?"), op);
            let _ = f.flush();
        }
    });
}

#[derive(Default)]
struct LockState { writer: bool, readers: usize }

pub struct RawLock { st: SMutex<LockState>, cv: SCondvar }

impl RawLock {
    pub const fn new() -> Self { RawLock { st: SMutex::new(LockState { writer: false, readers: 0 }), cv: SCondvar::new() } }
    pub fn lock_exclusive(&self) {
        trace("lock_x");
        let mut g = self.st.lock().unwrap_or_else(|e| e.into_inner());
        while g.writer || g.readers > 0 { g = self.cv.wait(g).unwrap_or_else(|e| e.into_inner()); }
        g.writer = true;
    }
    pub fn try_lock_exclusive(&self) -> bool {
        trace("try_x");
        let mut g = self.st.lock().unwrap_or_else(|e| e.into_inner());
        if g.writer || g.readers > 0 { drop(g); shuttle::thread::yield_now(); false } else { g.writer = true; true }
    }
    pub fn unlock_exclusive(&self) {
        trace("unlock_x");
        let mut g = self.st.lock().unwrap_or_else(|e| e.into_inner());
        assert!(g.writer);
        g.writer = false;
        drop(g);
        self.cv.notify_all();
    }
    pub fn lock_shared(&self) {
        trace("lock_s");
        let mut g = self.st.lock().unwrap_or_else(|e| e.into_inner());
        while g.writer { g = self.cv.wait(g).unwrap_or_else(|e| e.into_inner()); }
        g.readers += 1;
    }
    pub fn try_lock_shared(&self) -> bool {
        trace("try_s");
        let mut g = self.st.lock().unwrap_or_else(|e| e.into_inner());
        if g.writer { drop(g); shuttle::thread::yield_now(); false } else { g.readers += 1; true }
    }
    pub fn unlock_shared(&self) {
        trace("unlock_s");
        let mut g = self.st.lock().unwrap_or_else(|e| e.into_inner());
        assert!(g.readers > 0);
        g.readers -= 1;
        let wake = g.readers == 0;
        drop(g);
        if wake { self.cv.notify_all(); }
    }
}

/// Event: generation counter + condvar. Used for condvars and channel readiness.
pub struct Event { gen: SMutex<u64>, cv: SCondvar }
impl Event {
    pub const fn new() -> Self { Event { gen: SMutex::new(0), cv: SCondvar::new() } }
    pub fn bump(&self) { trace("bump"); let mut g = self.gen.lock().unwrap_or_else(|e| e.into_inner()); *g += 1; drop(g); self.cv.notify_all(); }
    /// Run `check` with the event locked; if it returns None, wait for a bump and retry.
    pub fn wait_until<R>(&self, mut check: impl FnMut() -> Option<R>) -> R {
        trace("wait_until");
        let mut g = self.gen.lock().unwrap_or_else(|e| e.into_inner());
        loop {
            if let Some(r) = check() { return r; }
            let seen = *g;
            while *g == seen { g = self.cv.wait(g).unwrap_or_else(|e| e.into_inner()); }
        }
    }
    /// Atomically (w.r.t. bump) run `before_wait` then wait for one bump.
    pub fn wait_one(&self, before_wait: impl FnOnce()) {
        trace("wait_one");
        let mut g = self.gen.lock().unwrap_or_else(|e| e.into_inner());
        let seen = *g;
        before_wait();
        while *g == seen { g = self.cv.wait(g).unwrap_or_else(|e| e.into_inner()); }
    }
}

/// Count of synchronisation operations issued through the shims (a measure of simulated "time").
pub static SYNC_OPS: std::sync::atomic::AtomicU64 = std::sync::atomic::AtomicU64::new(0);
