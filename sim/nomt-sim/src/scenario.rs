//! The explicit, serialisable description of one simulated execution. A replay file is exactly one
//! `Scenario`; the executor is a pure function of it (and of the code under test).
use serde::{Deserialize, Serialize};

pub type Key = [u8; 32];

pub fn hex(k: &[u8]) -> String { k.iter().map(|b| format!("{:02x}", b)).collect() }
pub fn unhex32(s: &str) -> Key {
    let mut k = [0u8; 32];
    for i in 0..32 { k[i] = u8::from_str_radix(&s[2 * i..2 * i + 2], 16).unwrap(); }
    k
}
mod keyhex {
    use super::*;
    use serde::{Deserializer, Serializer};
    pub fn serialize<S: Serializer>(k: &Key, s: S) -> Result<S::Ok, S::Error> { s.serialize_str(&hex(k)) }
    pub fn deserialize<'de, D: Deserializer<'de>>(d: D) -> Result<Key, D::Error> {
        let s = String::deserialize(d)?;
        Ok(unhex32(&s))
    }
}
#[derive(Clone, Copy, Debug, PartialEq, Eq, PartialOrd, Ord, Hash, Serialize, Deserialize)]
pub struct K(#[serde(with = "keyhex")] pub Key);

#[derive(Clone, Copy, Debug, PartialEq, Eq, Hash, Serialize, Deserialize)]
pub enum Hasher { Blake3, Sha2 }

#[derive(Clone, Debug, Serialize, Deserialize, PartialEq)]
pub struct Opts {
    pub commit_concurrency: usize,
    pub io_workers: usize,
    pub warm_up: bool,
    pub page_cache_mb: usize,
    pub leaf_cache_mb: usize,
    pub upper_levels: usize,
    pub prepopulate: bool,
    pub buckets: u32,
    pub bitbox_seed: u64,
    pub preallocate_ht: bool,
    pub rollback: bool,
    pub max_rollback_log_len: u32,
}

#[derive(Clone, Debug, Default, Serialize, Deserialize, PartialEq)]
pub struct Knobs {
    /// `seglog.max_segment_size` (bytes); None = the crate's 64 MiB.
    pub seg_max_size: Option<u64>,
    /// `store.grow_pages`; None = the crate's 8192.
    pub grow_pages: Option<u64>,
}

/// A value is identified by (length, stamp); its bytes are a fixed function of (key, spec), and
/// embed the stamp and the key so that every read is attributable to exactly one write.
#[derive(Clone, Copy, Debug, PartialEq, Eq, Hash, Serialize, Deserialize)]
pub struct VSpec { pub len: u32, pub stamp: u32 }

pub fn value_bytes(key: &Key, v: VSpec) -> Vec<u8> {
    let mut out = Vec::with_capacity(v.len as usize);
    let mut header = Vec::with_capacity(36);
    header.extend_from_slice(&v.stamp.to_le_bytes());
    header.extend_from_slice(key);
    let mut x = crate::rng::mix(v.stamp as u64 ^ u64::from_le_bytes(key[..8].try_into().unwrap()));
    while out.len() < v.len as usize {
        if out.len() < header.len() { out.push(header[out.len()]); continue; }
        if out.len() % 8 == 0 { x = crate::rng::mix(x); }
        out.push((x >> ((out.len() % 8) * 8)) as u8);
    }
    out
}

#[derive(Clone, Debug, PartialEq, Serialize, Deserialize)]
pub enum Act {
    Read,
    Write(Option<VSpec>),
    /// Read-then-write; the read value handed to `finish` is what the session actually observed.
    Rtw(Option<VSpec>),
}

#[derive(Clone, Debug, Default, PartialEq, Serialize, Deserialize)]
pub struct Batch {
    pub items: Vec<(K, Act)>,
    pub warm: Vec<K>,
    pub preserve: Vec<K>,
    pub witness: bool,
    /// Keys read / proven through the session before `finish`.
    pub reads: Vec<K>,
    pub proves: Vec<K>,
}

#[derive(Clone, Debug, PartialEq, Serialize, Deserialize)]
pub enum Step {
    Commit { batch: Batch, nonblocking: bool },
    /// Commit a batch deleting every key present at that moment (all but `keep` of them).
    DeleteAll { keep: usize },
    /// Build overlay `id` on top of overlay `parent` (None = on the committed state).
    OvBuild { id: usize, parent: Option<usize>, batch: Batch },
    OvCommit { id: usize, nonblocking: bool },
    OvDrop { id: usize },
    Rollback { n: usize },
    Reopen { opts: Opts },
    /// Run a session up to `finish` and keep the changeset (competing changesets, C12).
    Prepare { id: usize, batch: Batch },
    CommitPrepared { id: usize, nonblocking: bool },
    DropPrepared { id: usize },
    /// With a plain session alive, try a non-blocking commit of a prepared changeset (or overlay):
    /// it must be handed back and nothing may change.
    TryWhileSession { id: usize, overlay: bool },
}

#[derive(Clone, Debug, PartialEq, Serialize, Deserialize)]
pub enum Sched { Random, Pct(usize) }

#[derive(Clone, Debug, PartialEq, Serialize, Deserialize)]
pub enum FaultKind {
    /// Fork a process-crash image before this event (page cache survives).
    CrashImage,
    /// Process-crash image inside a multi-page append: first `pages` pages of it reached the file.
    TornImage { pages: u32 },
    /// Fork a power-loss image before this event; `pattern` seeds which unsynced writes are lost.
    PowerImage { pattern: u64 },
    /// The operation fails with errno (once, or this and every later mutating operation).
    Fail { errno: i32, persistent: bool },
    /// Pool write: short count, must be retried transparently.
    Short { bytes: u32 },
    /// Pool I/O: EINTR, must be retried transparently.
    Eintr,
    /// Park the issuing task for `steps` scheduling points.
    Stall { steps: u32 },
}

#[derive(Clone, Debug, PartialEq, Serialize, Deserialize)]
pub struct Fault {
    /// Index of the step during which the fault is armed.
    pub step: usize,
    /// Ordinal (0-based) of the mutating event within that step; for `Fail` on reads etc. only
    /// mutating events are counted.
    pub event: u64,
    pub kind: FaultKind,
}

#[derive(Clone, Debug, Default, PartialEq, Serialize, Deserialize)]
pub struct Checks {
    pub values: bool,
    pub root: bool,
    pub proofs: bool,
    pub witness: bool,
    pub multiproof: bool,
    pub reopen_equal: bool,
    pub decode: bool,
    pub accounting: bool,
    pub intact: bool,
    pub rules: bool,
}

#[derive(Clone, Debug, PartialEq, Serialize, Deserialize)]
pub struct Scenario {
    pub property: String,
    pub run_seed: u64,
    pub hasher: Hasher,
    pub opts: Opts,
    pub knobs: Knobs,
    /// Extra probe keys (never written) checked for absence / non-existence proofs.
    pub probes: Vec<K>,
    pub steps: Vec<Step>,
    pub faults: Vec<Fault>,
    pub sched: Sched,
    pub sched_seed: u64,
    pub checks: Checks,
    /// Free-form parameters of special scenario kinds (concurrency, open races).
    #[serde(default)]
    pub extra: serde_json::Value,
}
