//! One scenario = one scheduler execution in this process.
use crate::disk::SimDisk;
use crate::exec::{Report, Violation};
use crate::scenario::*;
use simrt::shuttle;
use std::path::PathBuf;
use std::sync::{Arc, Mutex};

static PANICS: Mutex<Vec<(String, String)>> = Mutex::new(Vec::new());

struct Ctx { rep: Arc<Mutex<Report>>, disk: Arc<SimDisk>, property: String, scratch: PathBuf }
static CTX: Mutex<Option<Ctx>> = Mutex::new(None);
pub static MAIN_DONE: std::sync::atomic::AtomicBool = std::sync::atomic::AtomicBool::new(false);

pub fn scratch_root() -> PathBuf { PathBuf::from(format!("/dev/shm/nomt-sim/{}", std::process::id())) }

fn classify(msg: &str, loc: &str, property: &str, steps_done: usize) -> Violation {
    let harness = loc.contains("nomt-sim/src") || loc.contains("shims/");
    let short = loc.rsplit('/').next().unwrap_or("").to_string();
    let class = if harness { "harness-panic".to_string() } else if msg.contains("deadlock") { "deadlock".to_string() } else if msg.contains("exceeded max_steps") { "livelock".to_string() } else { format!("panic@{short}") };
    Violation { property: if harness { "HARNESS".into() } else { property.to_string() }, class, detail: format!("{msg} @ {loc}"), step: Some(steps_done) }
}

/// The first panic ends the run. shuttle cannot continue an execution after a task panicked (it
/// closes the semaphores of every lock released while unwinding), and nomt catches panics of its
/// workers itself, so the execution would go on in a broken state. A panic raised inside nomt is
/// what the caller of the API would see re-raised by `join_task`; it is reported as a violation.
pub fn install_panic_hook() {
    std::panic::set_hook(Box::new(|info| {
        let loc = info.location().map(|l| format!("{}:{}", l.file(), l.line())).unwrap_or_default();
        let msg = if let Some(s) = info.payload().downcast_ref::<&str>() { s.to_string() } else if let Some(s) = info.payload().downcast_ref::<String>() { s.clone() } else { "<non-string panic>".into() };
        if std::env::var("SIM_VERBOSE").is_ok() { eprintln!("panic: {msg} @ {loc}\n{}", std::backtrace::Backtrace::force_capture()); }
        PANICS.lock().unwrap_or_else(|e| e.into_inner()).push((msg.clone(), loc.clone()));
        let ctx = CTX.try_lock().ok().and_then(|mut g| g.take());
        if let Some(ctx) = ctx {
            simrt::hooks::uninstall();
            let mut out = match ctx.rep.try_lock() { Ok(g) => g.clone(), Err(std::sync::TryLockError::Poisoned(p)) => p.into_inner().clone(), Err(_) => Report::default() };
            ctx.disk.export(&mut out);
            out.sched_steps = simrt::SYNC_OPS.load(std::sync::atomic::Ordering::Relaxed);
            out.panic = Some(format!("{msg} @ {loc}"));
            let leaked = msg.starts_with("deadlock!") && MAIN_DONE.load(std::sync::atomic::Ordering::SeqCst);
            if leaked {
                // every caller-visible operation returned and all checks ran; what remains are
                // background workers of a failed operation blocked forever (leaked threads)
                out.notes.push(format!("leaked blocked background tasks after the scenario finished: {msg}"));
                *out.probes.entry("sim.leaked_blocked_tasks".into()).or_default() += 1;
            } else if out.violations.is_empty() || loc.contains("nomt-sim/src") || loc.contains("shims/") { out.violations.push(classify(&msg, &loc, &ctx.property, out.steps_done)); }
            println!("RESULT {}", serde_json::to_string(&out).unwrap());
            use std::io::Write;
            let _ = std::io::stdout().flush();
            let _ = std::fs::remove_dir_all(&ctx.scratch);
            std::process::exit(0);
        }
    }));
}

pub fn run_scenario(scen: &Scenario) -> Report {
    let scratch = scratch_root();
    let _ = std::fs::remove_dir_all(&scratch);
    std::fs::create_dir_all(&scratch).unwrap();
    let dir = scratch.join("db");
    let dry = scen.extra.get("dry").and_then(|x| x.as_bool()).unwrap_or(false);
    let kind0 = scen.extra.get("kind").and_then(|x| x.as_str()).unwrap_or("history");
    let keep_trace = scen.checks.rules || scen.checks.intact || dry || kind0 == "openrace";
    let yield_on_events = scen.extra.get("yield_on_events").and_then(|x| x.as_bool()).unwrap_or(true);
    let disk = Arc::new(SimDisk::new(scratch.clone(), scen.faults.clone(), scen.knobs.clone(), keep_trace, yield_on_events));
    if let Some(rate) = scen.extra.get("buggify_io").and_then(|x| x.as_u64()) { if scen.faults.is_empty() && scen.extra.get("plan").is_none() { disk.set_buggify(rate, crate::rng::mix(scen.run_seed ^ 0xB0661F1)); } }
    simrt::hooks::install(disk.clone());
    let rep: Arc<Mutex<Report>> = Arc::new(Mutex::new(Report::default()));
    PANICS.lock().unwrap_or_else(|e| e.into_inner()).clear();
    MAIN_DONE.store(false, std::sync::atomic::Ordering::SeqCst);
    *CTX.lock().unwrap() = Some(Ctx { rep: rep.clone(), disk: disk.clone(), property: scen.property.clone(), scratch: scratch.clone() });

    let mut cfg = shuttle::Config::new();
    cfg.stack_size = 8 << 20;
    cfg.max_steps = shuttle::MaxSteps::FailAfter(std::env::var("SIM_MAX_STEPS").ok().and_then(|s| s.parse().ok()).or_else(|| scen.extra.get("max_steps").and_then(|x| x.as_u64()).map(|x| x as usize)).unwrap_or_else(|| {
        // the step cap is the livelock detector; large workloads legitimately need more steps
        let items: usize = scen.steps.iter().map(|st| match st { Step::Commit { batch, .. } | Step::OvBuild { batch, .. } | Step::Prepare { batch, .. } => batch.items.len(), _ => 0 }).sum();
        60_000_000 + items * 400_000 + scen.faults.len() * 6_000_000
    }));
    cfg.failure_persistence = shuttle::FailurePersistence::None;
    cfg.silence_warnings = true;
    let scen2 = Arc::new(scen.clone());
    let (rep2, disk2, dir2) = (rep.clone(), disk.clone(), dir.clone());
    let body = move || {
        let kind = scen2.extra.get("kind").and_then(|x| x.as_str()).unwrap_or("history").to_string();
        match kind.as_str() {
            "history" => crate::exec::run_history(&scen2, dir2.clone(), rep2.clone(), disk2.clone()),
            "concurrent" => crate::conc::run_concurrent(&scen2, dir2.clone(), rep2.clone(), disk2.clone()),
            "openrace" => crate::conc::run_openrace(&scen2, dir2.clone(), rep2.clone(), disk2.clone()),
            other => panic!("unknown scenario kind {other}"),
        }
        MAIN_DONE.store(true, std::sync::atomic::Ordering::SeqCst);
    };
    let res = std::panic::catch_unwind(std::panic::AssertUnwindSafe(|| match scen.sched {
        Sched::Random => { shuttle::Runner::new(shuttle::scheduler::RandomScheduler::new_from_seed(scen.sched_seed, 1), cfg).run(body); }
        Sched::Pct(d) => { shuttle::Runner::new(shuttle::scheduler::PctScheduler::new_from_seed(scen.sched_seed, d, 1), cfg).run(body); }
    }));
    simrt::hooks::uninstall();
    let mut out = rep.lock().map(|g| g.clone()).unwrap_or_else(|p| p.into_inner().clone());
    disk.export(&mut out);
    if dry { out.step_events = disk.step_sites(); }
    out.sched_steps = simrt::SYNC_OPS.load(std::sync::atomic::Ordering::Relaxed);
    *CTX.lock().unwrap() = None;
    if res.is_err() && out.violations.is_empty() {
        let (msg, loc) = PANICS.lock().unwrap_or_else(|e| e.into_inner()).last().cloned().unwrap_or_default();
        out.violations.push(classify(&msg, &loc, &scen.property, out.steps_done));
    }
    let _ = std::fs::remove_dir_all(&scratch);
    out
}
