//! R — ordering rules over the I/O trace of one sync (C04), stated from the property text only:
//!  (r1) the switch-over record (meta write) starts only after an fsync of `wal`, `ln`, `bbn`
//!       and of the rollback segment (and of the directory if a segment was created) that covers
//!       every write of this sync to that file;
//!  (r2) no write/truncate/unlink that the old state depends on — `ht` pages, `wal` truncation,
//!       rollback prune/truncate — starts before the meta fsync completed;
//!  (r3) the `wal` is truncated only after an `ht` fsync covering all `ht` writes since the wal
//!       was made durable (also inside recovery).
//! The image check is the arbiter: a rule violation is reported with the two offending events.
use crate::disk::EventRec;

pub fn check_sync_rules(trace: &[EventRec]) -> Result<u64, (String, String)> {
    // events of directory 0 for one step, in order
    let ev: Vec<&EventRec> = trace.iter().filter(|e| !matches!(e.kind, 'L' | 'U') && !e.failed).collect();
    let mut checked = 0u64;
    let metas: Vec<usize> = ev.iter().enumerate().filter(|(_, e)| e.site == "meta.write").map(|(i, _)| i).collect();
    let mut seg_start = 0usize;
    for &m in &metas {
        // the sync this meta write belongs to: events since the previous meta fsync
        let mfs = ev.iter().enumerate().skip(m).find(|(_, e)| e.site == "meta.fsync").map(|(i, _)| i);
        // r1
        let pre = &ev[seg_start..m];
        let mut last_data: std::collections::BTreeMap<&str, usize> = Default::default();
        let mut last_sync: std::collections::BTreeMap<&str, usize> = Default::default();
        let mut created_segment: Option<usize> = None;
        let mut dir_sync: Option<usize> = None;
        for (i, e) in pre.iter().enumerate() {
            let f = e.file.as_str();
            let relevant = f == "wal" || f == "ln" || f == "bbn" || f.starts_with("rollback.");
            match e.kind {
                'w' | 'a' | 'l' if relevant => { last_data.insert(f, i); }
                'f' if relevant => { last_sync.insert(f, i); }
                'c' if f.starts_with("rollback.") => created_segment = Some(i),
                'd' => dir_sync = Some(i),
                _ => {}
            }
        }
        for (f, i) in &last_data {
            // the unsynced truncation of the wal that ends the previous sync is not part of this one
            if *f == "wal" && pre[*i].site == "wal.truncate" { continue; }
            match last_sync.get(f) {
                Some(j) if j > i => {}
                _ => return Err(("rule-r1-unsynced-before-switch".into(), format!("meta write (event {}) starts although {} event {} ({}) on '{}' is not covered by a completed fsync of that file", ev[m].ev, kindname(pre[*i].kind), pre[*i].ev, pre[*i].site, f))),
            }
        }
        if let Some(c) = created_segment {
            if !matches!(dir_sync, Some(d) if d > c) {
                return Err(("rule-r1-unsynced-before-switch".into(), format!("meta write (event {}) starts although the creation of segment '{}' (event {}) is not covered by a directory fsync", ev[m].ev, pre[c].file, pre[c].ev)));
            }
        }
        // r2: between the previous meta fsync (seg_start) and this meta fsync, nothing destructive
        let end = mfs.unwrap_or(ev.len());
        for e in &ev[seg_start..end] {
            let destructive = (e.file == "ht" && matches!(e.kind, 'w' | 'l' | 'u'))
                || e.site == "seg.unlink_oldest" || e.site == "seg.unlink_recent" || e.site == "seg.unlink_all" || e.site == "seg.truncate";
            if destructive {
                return Err(("rule-r2-destructive-before-switch".into(), format!("{} event {} ({}) on '{}' starts before the meta fsync of this sync completed", kindname(e.kind), e.ev, e.site, e.file)));
            }
        }
        // the wal truncation that follows this sync must not precede the meta fsync either: it is
        // found after `end` by construction (it belongs to the next segment and is skipped by r1)
        checked += 1;
        seg_start = end + 1;
    }
    // r3 over the whole step trace (sync and recovery)
    let mut ht_dirty: Option<usize> = None;
    for (i, e) in ev.iter().enumerate() {
        if e.file == "ht" && e.kind == 'w' { ht_dirty = Some(i); }
        if e.file == "ht" && e.kind == 'f' { ht_dirty = None; }
        if e.file == "wal" && (e.site == "wal.truncate") {
            if let Some(j) = ht_dirty {
                return Err(("rule-r3-wal-truncated-before-ht-durable".into(), format!("wal truncation (event {}, {}) starts although ht write event {} ({}) is not covered by a completed ht fsync", e.ev, e.site, ev[j].ev, ev[j].site)));
            }
            checked += 1;
        }
    }
    Ok(checked)
}

fn kindname(k: char) -> &'static str { match k { 'w' => "write", 'a' => "append", 'l' => "set_len", 'f' => "fsync", 'd' => "dir-fsync", 'c' => "create", 'u' => "unlink", _ => "?" } }
