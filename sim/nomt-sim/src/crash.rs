//! Checking of forked crash / power-loss images (C03, C04) after the scenario's main handle is
//! closed, inside the same scheduler execution: the real store is opened on each image with hooks
//! on, so recovery's own events can fork second-level images (nested crashes).
use crate::disk::{ImageKind, ImageRec};
use crate::exec::{dv, to_options, Exec, StepSnap, Viol, Violation};
use crate::model::{ref_trie, State};
use crate::scenario::*;
use bitvec::prelude::*;
use nomt::{HashAlgorithm, KeyReadWrite, Nomt, SessionParams};
use std::collections::BTreeSet;

type R<T> = Result<T, Viol>;

fn v(prop: &str, class: &str, detail: String, step: usize) -> Viol {
    Viol(Violation { property: prop.to_string(), class: class.to_string(), detail, step: Some(step) })
}

pub const MAX_LEVEL: usize = 3;

pub fn finish<H: HashAlgorithm>(e: &mut Exec<'_, H>) -> R<()> {
    // quiescent-point images requested by the scenario (after the last step returned)
    let extra = &e.scen.extra;
    let final_power = extra.get("final_power_images").and_then(|x| x.as_u64()).unwrap_or(0);
    let mut final_images = Vec::new();
    if final_power > 0 {
        for i in 0..final_power {
            if let Some(p) = e.disk.fork_power_image_now(&e.dir, e.scen.run_seed.wrapping_mul(31).wrapping_add(i), &format!("final{i}")) {
                final_images.push(p);
            }
        }
    }
    // close the main handle first
    drop(e.nomt.take());
    let images = e.disk.take_images();
    let prop = e.prop.clone();
    for img in images {
        let Some(snap) = e.snaps.get(&img.step).cloned() else { let _ = std::fs::remove_dir_all(&img.path); continue };
        let r = check_image(e, &img, &snap, &prop);
        let _ = std::fs::remove_dir_all(&img.path);
        r?;
    }
    for p in final_images {
        // acknowledged ⇒ new: after every step returned, only the final state is acceptable
        let snap = StepSnap { old: e.model.cur.clone(), new: e.model.cur.clone(), seqn_old: e.model.seqn, seqn_new: e.model.seqn, opts: e.opts.clone(), old_retained: e.model.retained, old_history: e.model.history.clone(), returned_ok: true };
        let rec = ImageRec { path: p.clone(), kind: ImageKind::Power, step: e.scen.steps.len(), event: 0, site: "quiescent".into(), file: String::new(), level: 0, desc: "after last step".into() };
        let r = check_image(e, &rec, &snap, &prop);
        let _ = std::fs::remove_dir_all(&p);
        r?;
    }
    Ok(())
}

fn describe(img: &ImageRec) -> String {
    format!("{:?} image forked before event {} of step {} ({} on '{}'{}{})", img.kind, img.event, img.step, img.site, img.file,
        if img.level > 0 { format!(", nested level {}", img.level) } else { String::new() },
        if img.desc.is_empty() { String::new() } else { format!(", {}", img.desc) })
}

pub fn check_image<H: HashAlgorithm>(e: &mut Exec<'_, H>, img: &ImageRec, snap: &StepSnap, prop: &str) -> R<()> {
    let level = img.level + 1;
    let nested = level < MAX_LEVEL && e.scen.extra.get("nested").and_then(|x| x.as_u64()).unwrap_or(0) > 0;
    if nested {
        e.disk.adopt_at_level(&img.path, level);
        // seeded nested plan: a few crash points inside the recovery of this image
        let n = e.scen.extra.get("nested").and_then(|x| x.as_u64()).unwrap_or(0);
        let mut r = crate::rng::Rng::new(e.scen.run_seed ^ (img.step as u64) << 40 ^ img.event << 8 ^ level as u64);
        let power = prop == "C04";
        let plan: Vec<(u64, FaultKind)> = (0..n).map(|_| (r.below(12), if power { FaultKind::PowerImage { pattern: r.next() } } else { FaultKind::CrashImage })).collect();
        e.disk.set_nested_plan(level, plan);
    }
    let what = describe(img);
    let res = (|| -> R<bool> {
        // the image check is not about parallelism: keep the number of tasks per open small
        let mut iopts = snap.opts.clone();
        iopts.commit_concurrency = iopts.commit_concurrency.min(3);
        iopts.io_workers = iopts.io_workers.min(2);
        let nomt = Nomt::<H>::open(to_options(&img.path, &iopts))
            .map_err(|err| v(prop, "image-does-not-open", format!("{what}: the directory cannot be opened again: {err:#}"), img.step))?;
        // nested crash points are placed inside recovery only
        if nested {
            e.disk.clear_nested_plan();
            if e.scen.checks.rules && std::env::var("SIM_NO_RULES").is_err() {
                // r3 also binds recovery: the wal may be discarded only once the replayed pages are durable
                if let Some(id) = e.disk.dir_id(&img.path) {
                    let tr: Vec<crate::disk::EventRec> = e.disk.trace().into_iter().filter(|x| x.dir == id).collect();
                    if let Err((class, detail)) = crate::rules::check_sync_rules(&tr) { return Err(v("C04", &class, format!("{what}, during recovery: {detail}"), img.step)); }
                }
            }
            if prop == "C04" {
                // power loss right after recovery returned: still old-or-new
                e.disk.fork_power_image_rec(&img.path, 0, img.step, "post-recovery");
            }
        }
        let root = nomt.root().into_inner();
        let seqn = nomt.sync_seqn();
        let r_old = ref_trie::<H>(&snap.old, &mut e.hc).hash();
        let r_new = ref_trie::<H>(&snap.new, &mut e.hc).hash();
        let mut keys: BTreeSet<Key> = snap.old.keys().cloned().collect();
        keys.extend(snap.new.keys().cloned());
        keys.extend(e.scen.probes.iter().map(|k| k.0));
        keys.extend(e.model.touched.iter().cloned());
        // decide as a whole: sequence number first (it distinguishes even when old == new as sets)
        let is_new = if snap.seqn_old == snap.seqn_new { root == r_new } else { seqn == snap.seqn_new };
        let (want, want_root, want_seqn, name) = if is_new { (&snap.new, r_new, snap.seqn_new, "new") } else { (&snap.old, r_old, snap.seqn_old, "old") };
        if seqn != want_seqn || root != want_root {
            return Err(v(prop, "image-neither-old-nor-new", format!("{what}: reopened with sync_seqn {seqn} and root {}; old = (seqn {}, root {}), new = (seqn {}, root {})", hex(&root), snap.seqn_old, hex(&r_old), snap.seqn_new, hex(&r_new)), img.step));
        }
        if !is_new && snap.returned_ok && img.site == "quiescent" {
            return Err(v(prop, "acknowledged-state-lost", format!("{what}: the operation had returned Ok but the image shows the old state"), img.step));
        }
        for k in &keys {
            let got = nomt.read(*k).map_err(|err| v(prop, "image-read-error", format!("{what}: read({}) failed: {err:#}", hex(k)), img.step))?;
            let w = want.get(k).map(|x| value_bytes(k, *x));
            if got != w {
                return Err(v(prop, "image-mixed-state", format!("{what}: root and sync_seqn are those of the {name} state, but read({}) = {}, {name} state has {}", hex(k), dv(&got), dv(&w)), img.step));
            }
        }
        // proofs for a sample
        {
            let trie = ref_trie::<H>(want, &mut e.hc);
            let sess = crate::exec::SessGuard::new(nomt.begin_session(SessionParams::default()), snap.opts.warm_up);
            for k in keys.iter().take(6) {
                let p = sess.prove(*k).map_err(|err| v(prop, "image-prove-error", format!("{what}: prove failed: {err:#}"), img.step))?;
                let ok = p.verify::<H>(k.view_bits::<Msb0>(), trie.hash()).ok().map(|vp| match want.get(k) {
                    Some(x) => vp.confirm_value(&nomt::trie::LeafData { key_path: *k, value_hash: e.hc.vh::<H>(k, *x) }).unwrap_or(false),
                    None => vp.confirm_nonexistence(k).unwrap_or(false),
                });
                if ok != Some(true) { return Err(v(prop, "image-proof", format!("{what}: proof for {} does not verify / confirm the {name} state", hex(k)), img.step)); }
            }
        }
        // a recovered store must itself reopen transparently: close it and open it again (what
        // recovery kept only in memory shows up here), then re-check root, sync_seqn and values
        drop(nomt);
        let nomt = Nomt::<H>::open(to_options(&img.path, &iopts))
            .map_err(|err| v(prop, "image-second-open-fails", format!("{what}: after a successful recovery and a clean close the directory cannot be opened again: {err:#}"), img.step))?;
        if nomt.root().into_inner() != want_root || nomt.sync_seqn() != want_seqn {
            return Err(v(prop, "image-second-open-differs", format!("{what}: recovery showed the {name} state, but after a clean close and a second open root = {} (expected {}), sync_seqn = {} (expected {want_seqn})", hex(&nomt.root().into_inner()), hex(&want_root), nomt.sync_seqn()), img.step));
        }
        for k in &keys {
            let got = nomt.read(*k).map_err(|err| v(prop, "image-read-error", format!("{what}: read({}) failed: {err:#}", hex(k)), img.step))?;
            let w = want.get(k).map(|x| value_bytes(k, *x));
            if got != w { return Err(v(prop, "image-second-open-differs", format!("{what}: after a clean close and a second open read({}) = {}, {name} state has {}", hex(k), dv(&got), dv(&w)), img.step)); }
        }
        // C16 on the recovered image: the files decode to exactly the chosen state
        {
            let dimg = crate::decoder::decode(&img.path).map_err(|err| v("C16", "decode-failed", format!("{what}: after recovery: {err}"), img.step))?;
            let trie = ref_trie::<H>(want, &mut e.hc);
            let hc = &mut e.hc;
            let ex = crate::decoder::Expect { state: want, trie: &trie, hc_vh: &mut |k, x| hc.vh::<H>(k, x), seqn: want_seqn };
            crate::decoder::check_image::<H>(&dimg, ex).map_err(|(class, d)| v("C16", &class, format!("{what}: after recovery: {d}"), img.step))?;
            crate::decoder::check_accounting(&dimg).map_err(|(class, d)| v("C19", &class, format!("{what}: after recovery: {d}"), img.step))?;
            e.rep.lock().unwrap().decodes += 1;
        }
        // the reopened store accepts a further commit that behaves as in the model
        {
            let mut st: State = want.clone();
            let mut r = crate::rng::Rng::new(e.scen.run_seed ^ 0xC0FFEE ^ img.event);
            let ks: Vec<Key> = keys.iter().cloned().collect();
            let mut batch: BTreeSet<Key> = BTreeSet::new();
            for _ in 0..r.range(1, 4) { batch.insert(*r.pick(&ks)); }
            let sess = crate::exec::SessGuard::new(nomt.begin_session(SessionParams::default()), snap.opts.warm_up);
            let mut actuals = Vec::new();
            for (j, k) in batch.iter().enumerate() {
                if st.contains_key(k) && r.chance(1, 3) { actuals.push((*k, KeyReadWrite::Write(None))); st.remove(k); }
                else { let vs = VSpec { len: *r.pick(&[5u32, 40, 1332, 1400, 9000]), stamp: 0xF000_0000u32.wrapping_add(j as u32).wrapping_add((img.event as u32).wrapping_mul(16)) }; actuals.push((*k, KeyReadWrite::Write(Some(value_bytes(k, vs))))); st.insert(*k, vs); }
            }
            let fin = sess.into_inner().finish(actuals).map_err(|err| v(prop, "image-further-commit", format!("{what}: finish failed: {err:#}"), img.step))?;
            fin.commit(&nomt).map_err(|err| v(prop, "image-further-commit", format!("{what}: a further commit on the reopened store failed: {err:#}"), img.step))?;
            let rt = ref_trie::<H>(&st, &mut e.hc).hash();
            if nomt.root().into_inner() != rt { return Err(v(prop, "image-further-commit", format!("{what}: root after a further commit = {}, model = {}", hex(&nomt.root().into_inner()), hex(&rt)), img.step)); }
            for k in &keys {
                let got = nomt.read(*k).map_err(|err| v(prop, "image-read-error", format!("{err:#}"), img.step))?;
                let w = st.get(k).map(|x| value_bytes(k, *x));
                if got != w { return Err(v(prop, "image-further-commit", format!("{what}: after a further commit read({}) = {}, model = {}", hex(k), dv(&got), dv(&w)), img.step)); }
            }
        }
        drop(nomt);
        Ok(is_new)
    })();
    let nested_imgs = if nested { e.disk.clear_nested_plan(); let v = e.disk.take_images(); e.disk.forget(&img.path); v } else { Vec::new() };
    match &res {
        Ok(is_new) => {
            let mut rep = e.rep.lock().unwrap();
            rep.images_checked += 1;
            if img.level > 0 { rep.nested_images += 1; }
            if *is_new { rep.images_new += 1 } else { rep.images_old += 1 }
        }
        Err(_) => { for n in &nested_imgs { let _ = std::fs::remove_dir_all(&n.path); } }
    }
    res?;
    for n in nested_imgs {
        let mut n2 = n.clone();
        n2.level = level;
        n2.step = img.step;
        let r = check_image(e, &n2, snap, prop);
        let _ = std::fs::remove_dir_all(&n.path);
        r?;
    }
    Ok(())
}
