//! Seeded scenario generators (swarm style: every size, mix and configuration is drawn per run).
use crate::rng::Rng;
use crate::scenario::*;
use std::collections::{BTreeMap, BTreeSet};

#[derive(Clone, Copy, PartialEq, Debug)]
pub enum Tier { Quick, Thorough }

pub fn set_bit(k: &mut Key, i: usize, v: bool) { let m = 1u8 << (7 - (i % 8)); if v { k[i / 8] |= m } else { k[i / 8] &= !m } }
pub fn get_bit(k: &Key, i: usize) -> bool { (k[i / 8] >> (7 - (i % 8))) & 1 == 1 }

/// A key sharing exactly the first `l` bits with `base` (bit `l` flipped, the rest random or kept).
pub fn diverge_at(rng: &mut Rng, base: &Key, l: usize, random_tail: bool) -> Key {
    let mut k = if random_tail { rng.bytes32() } else { *base };
    for i in 0..l.min(256) { set_bit(&mut k, i, get_bit(base, i)); }
    if l < 256 { set_bit(&mut k, l, !get_bit(base, l)); }
    k
}

fn interesting_depth(rng: &mut Rng) -> usize {
    match rng.below(10) {
        0..=2 => rng.usize(256),
        3..=5 => { let b = 6 * rng.range(1, 42) as usize; (b + rng.usize(3)).saturating_sub(1).min(255) }
        6 => 255 - rng.usize(4),
        7 => rng.usize(8),
        _ => rng.usize(48),
    }
}

/// Key pool with adversarial geometry: random keys, clusters sharing prefixes of every length,
/// prefixes ending at 6-bit page boundaries ±1, dense sub-tries around the elision threshold.
pub fn gen_pool(rng: &mut Rng, n: usize) -> Vec<Key> {
    let mut set: BTreeSet<Key> = BTreeSet::new();
    if n >= 200 && rng.chance(1, 3) {
        // one family sharing a long prefix and differing in a counter at the end (hundreds of
        // leaves whose separators share the prefix: prefix compression, its cut-off inside a
        // branch node, branch splits), plus a few keys far before and far after it
        let base = rng.bytes32();
        let plen = *rng.pick(&[8usize, 20, 26, 28]);
        let stride = rng.range(1, 9);
        let fam = n - n / 12 - 2;
        for i in 0..fam {
            let mut k = base;
            for b in k.iter_mut().skip(plen) { *b = 0; }
            let c = (i as u64 * stride + 3).to_be_bytes();
            k[24..32].copy_from_slice(&c);
            set.insert(k);
        }
        while set.len() < n {
            let mut k = rng.bytes32();
            k[0] = if rng.chance(1, 2) { 0xff } else { 0x00 };
            if rng.chance(1, 2) { let k0 = k[0]; for b in k.iter_mut().take(20).skip(1) { *b = k0; } }
            set.insert(k);
        }
    }
    while set.len() < n {
        match rng.below(10) {
            0..=2 => { set.insert(rng.bytes32()); }
            3..=5 => {
                // cluster: chain of keys diverging from a base at chosen depths
                let base = rng.bytes32();
                set.insert(base);
                let m = rng.range(1, 5);
                for _ in 0..m { let l = interesting_depth(rng); let rt = rng.chance(1, 2); let k = diverge_at(rng, &base, l, rt); set.insert(k); }
            }
            6..=7 => {
                // dense sub-trie below a page boundary, sized around the elision threshold (20)
                let base = rng.bytes32();
                let plen = *rng.pick(&[6usize, 7, 11, 12, 13, 17, 18, 19, 24, 30]);
                let cnt = rng.range(17, 23) as usize;
                for _ in 0..cnt { let mut k = rng.bytes32(); for i in 0..plen { set_bit(&mut k, i, get_bit(&base, i)); } set.insert(k); }
            }
            8 => {
                // twins differing only in the last bits
                let base = rng.bytes32();
                set.insert(base);
                let mut k = base; let b = 255 - rng.usize(3); set_bit(&mut k, b, !get_bit(&base, b)); set.insert(k);
            }
            _ if rng.chance(1, 2) => {
                // low keys / high keys (leftmost and rightmost leaves, first-separator handling)
                let mut k = [0u8; 32]; if rng.chance(1, 2) { k = [0xff; 32]; }
                let i = rng.usize(32); k[i] = rng.next() as u8; set.insert(k);
            }
            _ => {
                // the extreme keys of a sub-trie: a prefix followed by all ones (the last key path
                // below it) and its successor, the next prefix followed by all zeros — the two
                // sides of a page / root-child / worker-range boundary
                let l = *rng.pick(&[1usize, 2, 3, 4, 5, 6, 6, 6, 7, 12, 12, 18, 24]);
                let mut hi = rng.bytes32();
                for i in l..256 { set_bit(&mut hi, i, true); }
                let mut lo = hi;
                // successor of prefix||1..1: increment the prefix, zero the rest (skip if the prefix is all ones)
                let mut carry = true;
                for i in (0..l).rev() { if carry { let b = get_bit(&lo, i); set_bit(&mut lo, i, !b); carry = b; } }
                for i in l..256 { set_bit(&mut lo, i, false); }
                match rng.below(4) { 0 => { set.insert(hi); } 1 => { if !carry { set.insert(lo); } } _ => { set.insert(hi); if !carry { set.insert(lo); } } }
                if rng.chance(1, 3) { let mut k = hi; set_bit(&mut k, 255, false); set.insert(k); }
            }
        }
    }
    let mut v: Vec<Key> = set.into_iter().collect();
    rng.shuffle(&mut v);
    v.truncate(n);
    v
}

pub fn gen_probes(rng: &mut Rng, pool: &[Key], n: usize) -> Vec<K> {
    let mut out = BTreeSet::new();
    let in_pool: BTreeSet<Key> = pool.iter().cloned().collect();
    for _ in 0..n * 4 {
        if out.len() >= n { break; }
        let k = if rng.chance(1, 4) || pool.is_empty() { rng.bytes32() } else {
            let base = rng.pick(pool);
            let l = if rng.chance(1, 3) { 255 - rng.usize(3) } else { interesting_depth(rng) };
            let rt = rng.chance(1, 2);
            diverge_at(rng, base, l, rt)
        };
        if !in_pool.contains(&k) { out.insert(K(k)); }
    }
    out.into_iter().collect()
}

pub fn gen_len_fat(rng: &mut Rng, big: u64, fat: u64) -> u32 {
    // `fat` in 100 values are large in-leaf values (about three cells per leaf: many leaves)
    if rng.below(100) < fat { return rng.range(700, 1332) as u32; }
    gen_len(rng, big)
}

pub fn gen_len(rng: &mut Rng, big: u64) -> u32 {
    // `big` = how many in 100 values are overflow-sized
    if rng.below(100) < big {
        // rarely a value of more than a megabyte: the first pages of its chain are filled with page
        // numbers only (1023 per page), 4.4 MB needs page numbers in a second page
        if rng.chance(1, 40) { return *rng.pick(&[1_099_732u32, 1_099_733, 1_300_000, 4_400_000]); }
        *rng.pick(&[1333u32, 1334, 2000, 4092, 4093, 4096, 8184, 8185, 20000, 15 * 4092 - 1, 15 * 4092, 15 * 4092 + 1, 65536, 65537, 100_000])
    } else {
        *rng.pick(&[0u32, 1, 4, 8, 9, 32, 33, 64, 100, 200, 500, 1000, 1331, 1332])
    }
}

pub fn gen_opts(rng: &mut Rng, rollback: Option<bool>, small_ht: bool) -> Opts {
    Opts {
        commit_concurrency: *rng.pick(&[1usize, 1, 2, 2, 3, 4, 4, 8, 64]),
        io_workers: rng.range(1, 4) as usize,
        warm_up: rng.chance(1, 2),
        page_cache_mb: *rng.pick(&[1usize, 1, 2, 16]),
        leaf_cache_mb: *rng.pick(&[0usize, 1, 1, 16]),
        upper_levels: rng.usize(4),
        prepopulate: rng.chance(1, 3),
        buckets: if small_ht { *rng.pick(&[64u32, 100, 128, 300, 1000]) } else { *rng.pick(&[512u32, 1000, 4096, 5000, 64000]) },
        bitbox_seed: rng.next(),
        preallocate_ht: rng.chance(1, 2),
        rollback: rollback.unwrap_or_else(|| rng.chance(1, 2)),
        max_rollback_log_len: *rng.pick(&[1u32, 2, 3, 5, 100]),
    }
}

/// Options for a reopen: everything may change except what is fixed at creation (buckets, seed)
/// and the rollback switch (kept, so that the rollback history stays meaningful).
pub fn regen_opts(rng: &mut Rng, prev: &Opts, keep_log_len: bool) -> Opts {
    let mut o = gen_opts(rng, Some(prev.rollback), false);
    // `hashtable_buckets` is documented as used "when creating the database" and `Options::new()`
    // draws a fresh random bitbox seed every time: a reopen with other values than the creation's
    // is the normal case and must change nothing (the store keeps what its meta page records)
    if rng.chance(1, 2) { o.buckets = prev.buckets; o.bitbox_seed = prev.bitbox_seed; } else { o.bitbox_seed = rng.next(); }
    if keep_log_len { o.max_rollback_log_len = prev.max_rollback_log_len; }
    o
}

pub struct Profile {
    pub steps: (u64, u64),
    pub pool: (u64, u64),
    pub batch: (u64, u64),
    pub big_pct: u64,
    /// weights: commit, reopen, rollback, overlay-op
    pub w_commit: u64,
    pub w_reopen: u64,
    pub w_rollback: u64,
    pub w_overlay: u64,
    pub witness_pct: u64,
    pub rollback: Option<bool>,
    pub small_ht: bool,
    pub small_segments: bool,
    pub session_reads: u64,
    pub session_proves: u64,
    pub nonblocking_pct: u64,
    pub bad_rollback_pct: u64,
    pub w_compete: u64,
    pub fat_pct: u64,
}

impl Default for Profile {
    fn default() -> Self {
        Profile { steps: (2, 8), pool: (6, 60), batch: (1, 24), big_pct: 12, w_commit: 70, w_reopen: 10, w_rollback: 8, w_overlay: 12, witness_pct: 30,
            rollback: None, small_ht: false, small_segments: false, session_reads: 6, session_proves: 4, nonblocking_pct: 15, bad_rollback_pct: 15, w_compete: 0, fat_pct: 0 }
    }
}

pub struct HistGen<'a> {
    pub rng: &'a mut Rng,
    /// configuration stream: options, warm-up / preserve hints, scheduler (C13 varies only this)
    pub cfg: Rng,
    pub pool: Vec<Key>,
    pub probes: Vec<K>,
    pub stamp: u32,
    pub prof: Profile,
    /// generator-side mirror, only to bias towards meaningful steps
    pub present: BTreeSet<Key>,
}

impl<'a> HistGen<'a> {
    pub fn batch(&mut self, present: &BTreeSet<Key>, size: usize) -> (Batch, Vec<(Key, bool)>) {
        let rng = &mut *self.rng;
        let mut keys: BTreeSet<Key> = BTreeSet::new();
        let size = size.min(self.pool.len());
        let present_v: Vec<Key> = present.iter().cloned().collect();
        while keys.len() < size {
            if !present_v.is_empty() && rng.chance(2, 5) { keys.insert(*rng.pick(&present_v)); } else { keys.insert(*rng.pick(&self.pool)); }
        }
        let mut items = Vec::new();
        let mut effect = Vec::new();
        for k in keys {
            let r = rng.below(100);
            let act = if r < 12 { Act::Read } else {
                let del = if present.contains(&k) { rng.chance(1, 4) } else { rng.chance(1, 10) };
                let v = if del { None } else { self.stamp += 1; Some(VSpec { len: gen_len_fat(rng, self.prof.big_pct, self.prof.fat_pct), stamp: self.stamp }) };
                effect.push((k, v.is_some()));
                if r < 35 { Act::Rtw(v) } else { Act::Write(v) }
            };
            items.push((K(k), act));
        }
        let mut b = Batch { items, ..Default::default() };
        b.witness = rng.below(100) < self.prof.witness_pct;
        let item_keys: Vec<K> = b.items.iter().map(|x| x.0).collect();
        // warm-up / preserve-prior: none, subset, exact, or superset of the batch keys
        for which in 0..2 {
            let rng = &mut self.cfg;
            let mode = rng.below(4);
            let mut v: Vec<K> = Vec::new();
            if mode >= 1 { for k in &item_keys { if mode >= 2 || rng.chance(1, 2) { v.push(*k); } } }
            if mode == 3 { for _ in 0..rng.range(1, 4) { v.push(K(*rng.pick(&self.pool))); if !self.probes.is_empty() { v.push(*rng.pick(&self.probes)); } } }
            rng.shuffle(&mut v);
            if which == 0 { b.warm = v } else { b.preserve = v }
        }
        for _ in 0..rng.below(self.prof.session_reads + 1) { b.reads.push(if rng.chance(1, 4) && !self.probes.is_empty() { *rng.pick(&self.probes) } else { K(*rng.pick(&self.pool)) }); }
        for _ in 0..rng.below(self.prof.session_proves + 1) { b.proves.push(if rng.chance(1, 3) && !self.probes.is_empty() { *rng.pick(&self.probes) } else { K(*rng.pick(&self.pool)) }); }
        b.proves.sort(); b.proves.dedup();
        (b, effect)
    }
}

#[derive(Clone)]
struct GOv { parent: Option<usize>, status: u8 /*0 live 1 committed 2 dropped*/, present: BTreeSet<Key> }

pub fn checks_all() -> Checks { Checks { values: true, root: true, proofs: true, witness: true, multiproof: true, reopen_equal: true, decode: false, accounting: false, intact: false, rules: false } }

pub fn gen_history(prop: &str, seed: u64, prof: Profile, checks: Checks) -> Scenario { gen_history_cfg(prop, seed, seed ^ 0xC0F1_6000, prof, checks) }

/// `seed` decides the history (keys, batches, steps, rollback switch and log length);
/// `cfg_seed` decides everything the results must not depend on.
pub fn gen_history_cfg(prop: &str, seed: u64, cfg_seed: u64, prof: Profile, checks: Checks) -> Scenario {
    let mut rng = Rng::new(seed);
    let mut r2 = rng.fork(1);
    let mut cfg = Rng::new(cfg_seed);
    let pool_n = r2.range(prof.pool.0, prof.pool.1) as usize;
    let pool = gen_pool(&mut r2, pool_n);
    let probes = gen_probes(&mut r2, &pool, 6);
    let mut opts = gen_opts(&mut cfg, prof.rollback, prof.small_ht);
    opts.rollback = prof.rollback.unwrap_or_else(|| r2.chance(1, 2));
    opts.max_rollback_log_len = *r2.pick(&[1u32, 2, 3, 5, 100]);
    let knobs = Knobs {
        seg_max_size: if prof.small_segments || r2.chance(1, 3) { Some(4096 * r2.range(1, 3)) } else { None },
        grow_pages: Some(*cfg.pick(&[1u64, 2, 4, 16, 256])),
    };
    let hasher = if cfg.chance(1, 4) { Hasher::Sha2 } else { Hasher::Blake3 };
    let nsteps = r2.range(prof.steps.0, prof.steps.1) as usize;
    let sched = if cfg.chance(1, 4) { Sched::Pct(cfg.range(1, 4) as usize) } else { Sched::Random };
    let sched_seed = cfg.next();
    let mut steps = Vec::new();
    let mut present: BTreeSet<Key> = BTreeSet::new();
    let mut past: Vec<BTreeSet<Key>> = Vec::new();
    let mut retained = 0usize;
    let mut cur_opts = opts.clone();
    let mut ovs: BTreeMap<usize, GOv> = BTreeMap::new();
    let mut next_ov = 0usize;
    let mut last_ov_commit: Option<usize> = None;
    let (bl, bh) = prof.batch;
    let mut prepared: Vec<usize> = Vec::new();
    let mut next_prep = 0usize;
    let mut g = HistGen { rng: &mut rng, cfg, pool: pool.clone(), probes: probes.clone(), stamp: 0, prof, present: BTreeSet::new() };
    while steps.len() < nsteps {
        let w = [g.prof.w_commit, g.prof.w_reopen, if cur_opts.rollback { g.prof.w_rollback } else { 0 }, g.prof.w_overlay, g.prof.w_compete];
        let tot: u64 = w.iter().sum();
        let mut x = g.rng.below(tot);
        let mut which = 0;
        for (i, wi) in w.iter().enumerate() { if x < *wi { which = i; break; } x -= wi; }
        match which {
            0 => {
                let size = if g.rng.chance(1, 12) { 0 } else { g.rng.range(bl, bh) as usize };
                let (batch, eff) = g.batch(&present, size);
                past.push(present.clone());
                for (k, p) in eff { if p { present.insert(k); } else { present.remove(&k); } }
                if cur_opts.rollback { retained = (retained + 1).min(cur_opts.max_rollback_log_len as usize); }
                let nb = g.rng.below(100) < g.prof.nonblocking_pct;
                steps.push(Step::Commit { batch, nonblocking: nb });
                last_ov_commit = None;
            }
            1 => {
                let keep = g.rng.chance(2, 3);
                let mut o = regen_opts(&mut g.cfg, &cur_opts, true);
                if !keep { o.max_rollback_log_len = *g.rng.pick(&[1u32, 2, 3, 5, 100]); }
                prepared.clear();
                retained = retained.min(o.max_rollback_log_len as usize);
                cur_opts = o.clone();
                for (_, ov) in ovs.iter_mut() { if ov.status == 0 { ov.status = 2; } }
                steps.push(Step::Reopen { opts: o });
                last_ov_commit = None;
            }
            2 => {
                let bad = g.rng.below(100) < g.prof.bad_rollback_pct;
                let n = if bad || retained == 0 { retained + 1 + g.rng.usize(3) } else { 1 + g.rng.usize(retained) };
                if n <= retained && n <= past.len() {
                    present = past[past.len() - n].clone();
                    let keep = past.len() - n;
                    past.truncate(keep);
                    retained -= n;
                    last_ov_commit = None;
                }
                steps.push(Step::Rollback { n });
            }
            4 => {
                // competing changesets prepared on the current base
                let live_ov: Vec<usize> = ovs.iter().filter(|(_, o)| o.status == 0).map(|(i, _)| *i).collect();
                let r = g.rng.below(100);
                if prepared.is_empty() || r < 40 {
                    let size = g.rng.range(bl, bh) as usize;
                    let (batch, _eff) = g.batch(&present, size);
                    prepared.push(next_prep);
                    steps.push(Step::Prepare { id: next_prep, batch });
                    next_prep += 1;
                } else if r < 55 {
                    let use_ov = !live_ov.is_empty() && g.rng.chance(1, 3);
                    let id = if use_ov { *g.rng.pick(&live_ov) } else { *g.rng.pick(&prepared) };
                    steps.push(Step::TryWhileSession { id, overlay: use_ov });
                } else if r < 92 {
                    let ix = g.rng.usize(prepared.len());
                    let id = prepared.remove(ix);
                    let nb = g.rng.chance(1, 2);
                    // mirror: cannot know validity cheaply; the executor decides. Assume a stale one is rejected.
                    steps.push(Step::CommitPrepared { id, nonblocking: nb });
                    last_ov_commit = None;
                } else {
                    let ix = g.rng.usize(prepared.len());
                    let id = prepared.remove(ix);
                    steps.push(Step::DropPrepared { id });
                }
            }
            _ => {
                // overlay operation
                let live: Vec<usize> = ovs.iter().filter(|(_, o)| o.status == 0).map(|(i, _)| *i).collect();
                let r = g.rng.below(100);
                if live.is_empty() || r < 45 {
                    // build: on committed state, or on a live overlay (chain / fork)
                    let parent = if live.is_empty() || g.rng.chance(1, 3) { None } else { Some(*g.rng.pick(&live)) };
                    let base_present = match parent { None => present.clone(), Some(p) => ovs[&p].present.clone() };
                    let size = g.rng.range(bl, bh) as usize;
                    let (batch, eff) = g.batch(&base_present, size);
                    let mut np = base_present;
                    for (k, p) in eff { if p { np.insert(k); } else { np.remove(&k); } }
                    ovs.insert(next_ov, GOv { parent, status: 0, present: np });
                    steps.push(Step::OvBuild { id: next_ov, parent, batch });
                    next_ov += 1;
                } else if r < 85 {
                    // commit: prefer an overlay whose parent is None / the last committed one
                    let ready: Vec<usize> = live.iter().cloned().filter(|i| match ovs[i].parent { None => true, Some(p) => ovs[&p].status == 1 && last_ov_commit == Some(p) }).collect();
                    let id = if !ready.is_empty() && g.rng.chance(4, 5) { *g.rng.pick(&ready) } else { *g.rng.pick(&live) };
                    // generator mirror: assume it succeeds iff ready (the executor decides for real)
                    if ready.contains(&id) {
                        // NB: the executor additionally requires base == current state; mirror only approximates
                        past.push(present.clone());
                        present = ovs[&id].present.clone();
                        if cur_opts.rollback { retained = (retained + 1).min(cur_opts.max_rollback_log_len as usize); }
                        ovs.get_mut(&id).unwrap().status = 1;
                        last_ov_commit = Some(id);
                    } else { ovs.get_mut(&id).unwrap().status = 2; }
                    let nb = g.rng.below(100) < g.prof.nonblocking_pct;
                    steps.push(Step::OvCommit { id, nonblocking: nb });
                } else {
                    let id = *g.rng.pick(&live);
                    ovs.get_mut(&id).unwrap().status = 2;
                    steps.push(Step::OvDrop { id });
                }
            }
        }
    }
    Scenario { property: prop.to_string(), run_seed: seed, hasher, opts, knobs, probes, steps, faults: vec![], sched, sched_seed, checks, extra: serde_json::Value::Null }
}
