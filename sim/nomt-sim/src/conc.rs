//! Concurrency scenarios under the controlled scheduler.
//!  * C15: reader tasks (sessions with reads / proofs) and writer tasks (blocking and non-blocking
//!    session commits, overlay commits, rollbacks) on one handle; every call is recorded with the
//!    simulator's global event counter at invocation and return, and the recorded history is
//!    checked for linearizability against the sequential model (Wing-Gong search with memo).
//!  * C20: racing `Nomt::open` calls on one directory.
use crate::disk::SimDisk;
use crate::exec::{to_options, Report, SessGuard, Shared, Violation};
use crate::model::{ref_trie, HashCache, State};
use crate::scenario::*;
use bitvec::prelude::*;
use nomt::hasher::{Blake3Hasher, Sha2Hasher};
use nomt::{HashAlgorithm, KeyReadWrite, Nomt, SessionParams};
use serde::{Deserialize, Serialize};
use simrt::shuttle;
use std::collections::{BTreeMap, HashSet};
use std::path::PathBuf;
use std::sync::atomic::{AtomicI64, AtomicU64, Ordering};
use std::sync::{Arc, Mutex};

#[derive(Clone, Debug, Serialize, Deserialize, PartialEq)]
pub enum WOp {
    Commit { writes: Vec<(K, Option<VSpec>)>, nonblocking: bool, retries: u32, #[serde(default)] par: u32 },
    OverlayCommit { writes: Vec<(K, Option<VSpec>)>, nonblocking: bool },
    Rollback { n: usize },
}
#[derive(Clone, Debug, Serialize, Deserialize, PartialEq)]
pub struct ROp { pub reads: Vec<K>, pub proves: Vec<K>, pub hold: u32, #[serde(default)] pub helpers: u32 }
#[derive(Clone, Debug, Serialize, Deserialize, PartialEq)]
pub struct ConcPlan { pub initial: Vec<(K, VSpec)>, pub writers: Vec<Vec<WOp>>, pub readers: Vec<Vec<ROp>>, pub initial_commits: u32, #[serde(default)] pub cold: bool }

static CLOCK: AtomicU64 = AtomicU64::new(1);
fn tick() -> u64 { CLOCK.fetch_add(1, Ordering::SeqCst) }

#[derive(Clone, Debug)]
enum Ev {
    /// begin_session: snapshot observations are attached to the begin event
    SessBegin { id: usize, obs: Vec<(Key, Option<Vec<u8>>)>, prev_root: [u8; 32] },
    SessEnd { id: usize },
    CommitOk { prev_root: [u8; 32], new_root: [u8; 32], writes: Vec<(Key, Option<VSpec>)> },
    CommitStale { prev_root: [u8; 32] },
    HandedBack,
    RollbackOk { n: usize },
    RollbackErr { n: usize },
}
#[derive(Clone, Debug)]
struct Rec { inv: u64, ret: u64, task: String, ev: Ev }

type Hist = Arc<Mutex<Vec<Rec>>>;

fn viol(rep: &Shared, prop: &str, class: &str, detail: String) {
    rep.lock().unwrap().violations.push(Violation { property: prop.into(), class: class.into(), detail, step: None });
}

pub fn run_concurrent(scen: &Scenario, dir: PathBuf, rep: Shared, disk: Arc<SimDisk>) {
    match scen.hasher { Hasher::Blake3 => conc::<Blake3Hasher>(scen, dir, rep, disk), Hasher::Sha2 => conc::<Sha2Hasher>(scen, dir, rep, disk) }
}

fn conc<H: HashAlgorithm + Send + Sync + 'static>(scen: &Scenario, dir: PathBuf, rep: Shared, disk: Arc<SimDisk>) {
    let plan: ConcPlan = serde_json::from_value(scen.extra["plan_conc"].clone()).expect("plan_conc");
    let warm = scen.opts.warm_up;
    let nomt = match Nomt::<H>::open(to_options(&dir, &scen.opts)) { Ok(n) => Arc::new(n), Err(e) => { viol(&rep, &scen.property, "open-failed", format!("{e:#}")); return; } };
    disk.adopt(&dir);
    // initial state: one or more commits so that rollbacks have something to undo
    let mut model_hist: Vec<State> = Vec::new();
    let mut cur = State::new();
    let chunks = plan.initial_commits.max(1) as usize;
    for c in 0..chunks {
        let part: Vec<(K, VSpec)> = plan.initial.iter().enumerate().filter(|(i, _)| i % chunks == c).map(|(_, x)| *x).collect();
        let s = nomt.begin_session(SessionParams::default());
        let mut actuals: Vec<(Key, KeyReadWrite)> = part.iter().map(|(k, v)| (k.0, KeyReadWrite::Write(Some(value_bytes(&k.0, *v))))).collect();
        actuals.sort_by(|a, b| a.0.cmp(&b.0));
        let fin = match s.finish(actuals) { Ok(f) => f, Err(e) => { viol(&rep, &scen.property, "finish-error", format!("{e:#}")); return; } };
        if let Err(e) = fin.commit(&nomt) { viol(&rep, &scen.property, "commit-error", format!("{e:#}")); return; }
        model_hist.push(cur.clone());
        for (k, v) in part { cur.insert(k.0, v); }
        rep.lock().unwrap().commits += 1;
    }
    // cold caches: close and reopen, so that the tasks' reads and proofs have to fetch leaves and
    // pages (concurrent misses from several tasks, also within one session)
    let nomt = if plan.cold {
        let n = match Arc::try_unwrap(nomt) { Ok(n) => n, Err(_) => { viol(&rep, "HARNESS", "harness-panic", "handle still shared".into()); return; } };
        drop(n);
        match Nomt::<H>::open(to_options(&dir, &scen.opts)) { Ok(n) => Arc::new(n), Err(e) => { viol(&rep, &scen.property, "reopen-failed", format!("{e:#}")); return; } }
    } else { nomt };
    let hist: Hist = Arc::new(Mutex::new(Vec::new()));
    let sess_ids = Arc::new(AtomicU64::new(0));
    let mut handles = Vec::new();
    for (wi, ops) in plan.writers.iter().cloned().enumerate() {
        let (nomt, hist, rep2, prop, sess_ids) = (nomt.clone(), hist.clone(), rep.clone(), scen.property.clone(), sess_ids.clone());
        handles.push(shuttle::thread::Builder::new().name(format!("writer-{wi}")).spawn(move || {
            let task = format!("writer-{wi}");
            for op in ops {
                match op {
                    WOp::Commit { writes, nonblocking, retries, par } => {
                        let mut attempt = 0;
                        loop {
                            let sid = sess_ids.fetch_add(1, Ordering::SeqCst) as usize;
                            let b0 = tick();
                            let s = nomt.begin_session(SessionParams::default());
                            let b1 = tick();
                            let prev_root = s.prev_root().into_inner();
                            let mut actuals: Vec<(Key, KeyReadWrite)> = writes.iter().map(|(k, v)| (k.0, KeyReadWrite::Write(v.map(|v| value_bytes(&k.0, v))))).collect();
                            actuals.sort_by(|a, b| a.0.cmp(&b.0));
                            let mut all: Vec<(Key, Option<Vec<u8>>)> = Vec::new();
                            // one session used from several threads: helpers warm up, read and preserve
                            // priors of the written keys concurrently, all joined before finish
                            let s = if par > 0 {
                                let shared = Arc::new(s);
                                let hs: Vec<_> = (0..par).map(|hi| { let (sh, ks) = (shared.clone(), writes.clone()); shuttle::thread::Builder::new().name(format!("{task}-helper-{hi}")).spawn(move || {
                                    let mut seen = Vec::new();
                                    for (j, (k, _)) in ks.iter().enumerate() { match (j as u32 + hi) % 3 { 0 => sh.warm_up(k.0), 1 => sh.preserve_prior_value(k.0), _ => {} } if let Ok(v) = sh.read(k.0) { seen.push((k.0, v)); } }
                                    seen
                                }).unwrap() }).collect();
                                for h in hs { if let Ok(v) = h.join() { all.extend(v); } }
                                match Arc::try_unwrap(shared) { Ok(s) => s, Err(_) => { viol(&rep2, "HARNESS", "harness-panic", "session still shared".into()); return; } }
                            } else { s };
                            hist.lock().unwrap().push(Rec { inv: b0, ret: b1, task: task.clone(), ev: Ev::SessBegin { id: sid, obs: all, prev_root } });
                            let e0 = tick();
                            let fin = match s.finish(actuals) { Ok(f) => f, Err(e) => { viol(&rep2, &prop, "finish-error", format!("{e:#}")); return; } };
                            let e1 = tick();
                            hist.lock().unwrap().push(Rec { inv: e0, ret: e1, task: task.clone(), ev: Ev::SessEnd { id: sid } });
                            let new_root = fin.root().into_inner();
                            if std::env::var("SIM_LIN_DEBUG").is_ok() { eprintln!("  DEBUG {task}: session base {} finished root {} writes {:?}", &hex(&prev_root)[..8], &hex(&new_root)[..8], writes.iter().map(|(k, v)| (hex(&k.0)[..10].to_string(), v.map(|x| (x.len, x.stamp)))).collect::<Vec<_>>()); }
                            let w: Vec<(Key, Option<VSpec>)> = writes.iter().map(|(k, v)| (k.0, *v)).collect();
                            let inv = tick();
                            let ev = if nonblocking {
                                match fin.try_commit_nonblocking(&nomt) { Ok(None) => Ev::CommitOk { prev_root, new_root, writes: w }, Ok(Some(_)) => Ev::HandedBack, Err(_) => Ev::CommitStale { prev_root } }
                            } else {
                                match fin.commit(&nomt) { Ok(()) => Ev::CommitOk { prev_root, new_root, writes: w }, Err(_) => Ev::CommitStale { prev_root } }
                            };
                            let ret = tick();
                            let done = matches!(ev, Ev::CommitOk { .. });
                            hist.lock().unwrap().push(Rec { inv, ret, task: task.clone(), ev });
                            attempt += 1;
                            if done || attempt > retries { break; }
                        }
                    }
                    WOp::OverlayCommit { writes, nonblocking } => {
                        let sid = sess_ids.fetch_add(1, Ordering::SeqCst) as usize;
                        let b0 = tick();
                        let s = nomt.begin_session(SessionParams::default());
                        let b1 = tick();
                        let prev_root = s.prev_root().into_inner();
                        hist.lock().unwrap().push(Rec { inv: b0, ret: b1, task: task.clone(), ev: Ev::SessBegin { id: sid, obs: vec![], prev_root } });
                        let mut actuals: Vec<(Key, KeyReadWrite)> = writes.iter().map(|(k, v)| (k.0, KeyReadWrite::Write(v.map(|v| value_bytes(&k.0, v))))).collect();
                        actuals.sort_by(|a, b| a.0.cmp(&b.0));
                        let e0 = tick();
                        let fin = match s.finish(actuals) { Ok(f) => f, Err(e) => { viol(&rep2, &prop, "finish-error", format!("{e:#}")); return; } };
                        let e1 = tick();
                        hist.lock().unwrap().push(Rec { inv: e0, ret: e1, task: task.clone(), ev: Ev::SessEnd { id: sid } });
                        let ov = fin.into_overlay();
                        let new_root = ov.root().into_inner();
                        let w: Vec<(Key, Option<VSpec>)> = writes.iter().map(|(k, v)| (k.0, *v)).collect();
                        let inv = tick();
                        let ev = if nonblocking {
                            match ov.try_commit_nonblocking(&*nomt) { Ok(None) => Ev::CommitOk { prev_root, new_root, writes: w }, Ok(Some(_)) => Ev::HandedBack, Err(_) => Ev::CommitStale { prev_root } }
                        } else {
                            match ov.commit(&*nomt) { Ok(()) => Ev::CommitOk { prev_root, new_root, writes: w }, Err(_) => Ev::CommitStale { prev_root } }
                        };
                        let ret = tick();
                        hist.lock().unwrap().push(Rec { inv, ret, task: task.clone(), ev });
                    }
                    WOp::Rollback { n } => {
                        let inv = tick();
                        let r = nomt.rollback(n);
                        let ret = tick();
                        hist.lock().unwrap().push(Rec { inv, ret, task: task.clone(), ev: if r.is_ok() { Ev::RollbackOk { n } } else { Ev::RollbackErr { n } } });
                    }
                }
            }
        }).unwrap());
    }
    for (ri, ops) in plan.readers.iter().cloned().enumerate() {
        let (nomt, hist, rep2, sess_ids) = (nomt.clone(), hist.clone(), rep.clone(), sess_ids.clone());
        handles.push(shuttle::thread::Builder::new().name(format!("reader-{ri}")).spawn(move || {
            let task = format!("reader-{ri}");
            for op in ops {
                let id = sess_ids.fetch_add(1, Ordering::SeqCst) as usize;
                let inv = tick();
                let s = SessGuard::new(nomt.begin_session(SessionParams::default()), warm);
                let ret = tick();
                let prev_root = s.prev_root().into_inner();
                let mut obs = Vec::new();
                // the same session read and proved from helper threads at the same time
                let s = Arc::new(s);
                let helpers: Vec<_> = (0..op.helpers).map(|hi| { let (sh, rk, pk, rep3) = (s.clone(), op.reads.clone(), op.proves.clone(), rep2.clone()); shuttle::thread::Builder::new().name(format!("{task}-helper-{hi}")).spawn(move || {
                    let mut seen: Vec<(Key, Option<Vec<u8>>)> = Vec::new();
                    for (j, k) in rk.iter().enumerate().rev() { if (j as u32 + hi) % 2 == 0 { sh.warm_up(k.0); } match sh.read(k.0) { Ok(v) => seen.push((k.0, v)), Err(e) => { viol(&rep3, "C15", "read-error", format!("{e:#}")); return seen; } } }
                    for k in pk.iter().rev() {
                        let base = sh.prev_root().into_inner();
                        if let Ok(p) = sh.prove(k.0) { match p.verify::<H>(k.0.view_bits::<Msb0>(), base) {
                            Ok(vp) => { let read = sh.read(k.0).ok().flatten(); let ok = match &read { Some(v) => vp.confirm_value(&nomt::trie::LeafData { key_path: k.0, value_hash: H::hash_value(v) }).unwrap_or(false), None => vp.confirm_nonexistence(&k.0).unwrap_or(false) }; if !ok { viol(&rep3, "C15", "session-proof-disagrees-with-read", format!("proof and read of {} in one session (helper thread) disagree", hex(&k.0))); } seen.push((k.0, read)); }
                            Err(e) => viol(&rep3, "C15", "session-proof-does-not-verify", format!("proof for {} (helper thread) does not verify against the session's base root: {e:?}", hex(&k.0))),
                        } } else { viol(&rep3, "C15", "prove-error", format!("prove({}) failed in a helper thread", hex(&k.0))); }
                    }
                    seen
                }).unwrap() }).collect();
                for (j, k) in op.reads.iter().enumerate() {
                    match s.read(k.0) { Ok(v) => obs.push((k.0, v)), Err(e) => { viol(&rep2, "C15", "read-error", format!("{e:#}")); return; } }
                    if j as u32 % 2 == 0 { for _ in 0..op.hold { shuttle::thread::yield_now(); } }
                }
                for k in &op.proves {
                    match s.prove(k.0) {
                        Ok(p) => {
                            // the proof must verify against the session's own base root and agree with its reads
                            match p.verify::<H>(k.0.view_bits::<Msb0>(), prev_root) {
                                Ok(vp) => {
                                    let read = s.read(k.0).ok().flatten();
                                    let ok = match &read { Some(v) => vp.confirm_value(&nomt::trie::LeafData { key_path: k.0, value_hash: H::hash_value(v) }).unwrap_or(false), None => vp.confirm_nonexistence(&k.0).unwrap_or(false) };
                                    if !ok { viol(&rep2, "C15", "session-proof-disagrees-with-read", format!("proof and read of {} in one session disagree", hex(&k.0))); return; }
                                    obs.push((k.0, read));
                                }
                                Err(e) => { viol(&rep2, "C15", "session-proof-does-not-verify", format!("proof for {} does not verify against the session's base root: {e:?}", hex(&k.0))); return; }
                            }
                        }
                        Err(e) => { viol(&rep2, "C15", "prove-error", format!("{e:#}")); return; }
                    }
                }
                for h in helpers { if let Ok(v) = h.join() { obs.extend(v); } }
                if !rep2.lock().unwrap().violations.is_empty() { return; }
                let s = match Arc::try_unwrap(s) { Ok(s) => s, Err(_) => { viol(&rep2, "HARNESS", "harness-panic", "session still shared".into()); return; } };
                hist.lock().unwrap().push(Rec { inv, ret, task: task.clone(), ev: Ev::SessBegin { id, obs, prev_root } });
                let inv2 = tick();
                drop(s);
                let ret2 = tick();
                hist.lock().unwrap().push(Rec { inv: inv2, ret: ret2, task: task.clone(), ev: Ev::SessEnd { id } });
            }
        }).unwrap());
    }
    for h in handles { let _ = h.join(); }
    if !rep.lock().unwrap().violations.is_empty() { return; }
    let h = hist.lock().unwrap().clone();
    let mut hc = HashCache::default();
    let rollback_on = scen.opts.rollback;
    let max_log = scen.opts.max_rollback_log_len as usize;
    let final_root = nomt.root().into_inner();
    match linearise::<H>(&h, &cur, &model_hist, rollback_on, max_log, &mut hc, final_root) {
        Ok(final_state) => {
            // no committed batch lost: the store now holds exactly the folded state, also after reopen
            let trie_root = ref_trie::<H>(&final_state, &mut hc).hash();
            if nomt.root().into_inner() != trie_root { viol(&rep, "C15", "final-root", format!("root after all tasks joined = {}, fold of the winning changesets = {}", hex(&nomt.root().into_inner()), hex(&trie_root))); return; }
            let keys: Vec<Key> = plan.initial.iter().map(|x| x.0 .0).chain(plan.writers.iter().flatten().flat_map(|op| match op { WOp::Commit { writes, .. } | WOp::OverlayCommit { writes, .. } => writes.iter().map(|w| w.0 .0).collect::<Vec<_>>(), _ => vec![] })).collect();
            for k in &keys {
                let got = nomt.read(*k).ok().flatten();
                let want = final_state.get(k).map(|v| value_bytes(k, *v));
                if got != want { viol(&rep, "C15", "committed-batch-lost", format!("after all tasks joined read({}) = {}, fold of the winning changesets = {}", hex(k), crate::exec::dv(&got), crate::exec::dv(&want))); return; }
            }
            let nomt = match Arc::try_unwrap(nomt) { Ok(n) => n, Err(_) => { viol(&rep, "HARNESS", "harness-panic", "handle still shared".into()); return; } };
            drop(nomt);
            match Nomt::<H>::open(to_options(&dir, &scen.opts)) {
                Ok(n2) => { if n2.root().into_inner() != trie_root { viol(&rep, "C15", "final-root", "root after reopen differs from the fold of the winning changesets".into()); } }
                Err(e) => viol(&rep, "C15", "reopen-failed", format!("{e:#}")),
            }
            let mut r = rep.lock().unwrap();
            r.commits += h.iter().filter(|x| matches!(x.ev, Ev::CommitOk { .. } | Ev::RollbackOk { .. })).count() as u64;
            r.reads_checked += h.iter().map(|x| if let Ev::SessBegin { obs, .. } = &x.ev { obs.len() as u64 } else { 0 }).sum::<u64>();
            r.steps_done = h.len();
            for x in &h {
                let k = match &x.ev { Ev::SessBegin { .. } => "conc.session", Ev::SessEnd { .. } => continue, Ev::CommitOk { .. } => "conc.commit-ok", Ev::CommitStale { .. } => "conc.commit-stale", Ev::HandedBack => "conc.handed-back", Ev::RollbackOk { .. } => "conc.rollback-ok", Ev::RollbackErr { .. } => "conc.rollback-refused" };
                *r.probes.entry(k.to_string()).or_default() += 1;
            }
            r.signature ^= h.iter().fold(0u64, |a, x| crate::rng::mix(a ^ x.inv ^ (x.ret << 20) ^ x.task.len() as u64));
        }
        Err(msg) => {
            let mut hs: Vec<&Rec> = h.iter().collect();
            hs.sort_by_key(|r| r.inv);
            let dump: Vec<String> = hs.iter().map(|r| format!("[{}..{}] {} {}", r.inv, r.ret, r.task, match &r.ev {
                Ev::SessBegin { id, obs, prev_root } => format!("begin#{id} base {} obs {:?}", &hex(prev_root)[..8], obs.iter().map(|(k, v)| (hex(k)[..6].to_string(), v.as_ref().map(|b| b.len()))).collect::<Vec<_>>()),
                Ev::SessEnd { id } => format!("end#{id}"),
                Ev::CommitOk { prev_root, new_root, .. } => format!("commit ok {} -> {}", &hex(prev_root)[..8], &hex(new_root)[..8]),
                Ev::CommitStale { prev_root } => format!("commit stale (base {})", &hex(prev_root)[..8]),
                Ev::HandedBack => "handed back".to_string(),
                Ev::RollbackOk { n } => format!("rollback({n}) ok"),
                Ev::RollbackErr { n } => format!("rollback({n}) refused"),
            })).collect();
            if std::env::var("SIM_LIN_DEBUG").is_ok() {
                // what the store holds now, read back key by key
                let mut st = State::new();
                let keys: Vec<Key> = plan.initial.iter().map(|x| x.0 .0).chain(plan.writers.iter().flatten().flat_map(|op| match op { WOp::Commit { writes, .. } | WOp::OverlayCommit { writes, .. } => writes.iter().map(|w| w.0 .0).collect::<Vec<_>>(), _ => vec![] })).collect();
                for k in &keys { if let Ok(Some(v)) = nomt.read(*k) { eprintln!("  FINAL read {} = len {} stamp {:?}", &hex(k)[..10], v.len(), v.get(..4).map(|s| u32::from_le_bytes(s.try_into().unwrap()))); if v.len() >= 4 { st.insert(*k, VSpec { len: v.len() as u32, stamp: u32::from_le_bytes(v[..4].try_into().unwrap()) }); } } }
                for drop_k in st.keys().cloned().collect::<Vec<_>>() { let mut alt = st.clone(); alt.remove(&drop_k); eprintln!("    FINAL without {}: {}", &hex(&drop_k)[..10], hex(&ref_trie::<H>(&alt, &mut hc).hash())); }
                eprintln!("  FINAL store root {} ; reference trie over what it holds {}", hex(&final_root), hex(&ref_trie::<H>(&st, &mut hc).hash()));
            }
            viol(&rep, "C15", "history-not-linearizable", format!("{msg}; final root {}; history: {}", &hex(&final_root)[..8], dump.join(" | ")))
        }
    }
}

/// Sequential specification + Wing-Gong linearizability search over the recorded history.
fn linearise<H: HashAlgorithm>(h: &[Rec], init: &State, init_hist: &[State], rollback_on: bool, max_log: usize, hc: &mut HashCache, final_root: [u8; 32]) -> Result<State, String> {
    #[derive(Clone)]
    struct St { cur: State, hist: Vec<State>, retained: usize, live: i32, snaps: BTreeMap<usize, State> }
    let n = h.len();
    if n > 60 { return Err(format!("history too long for the checker ({n} events)")); }
    let init_st = St { cur: init.clone(), hist: init_hist.to_vec(), retained: if rollback_on { init_hist.len().min(max_log) } else { 0 }, live: 0, snaps: BTreeMap::new() };
    // a proper hash of a state: every field is mixed on its own (XOR-combining key bytes with
    // stamps collides for the near-identical keys the generators produce on purpose)
    fn state_hash(st: &State) -> u64 {
        let mut x = 0xcbf29ce484222325u64;
        for (k, v) in st {
            for c in k.chunks(8) { x = crate::rng::mix(x ^ u64::from_le_bytes(c.try_into().unwrap())); }
            x = crate::rng::mix(x ^ v.stamp as u64);
            x = crate::rng::mix(x ^ (v.len as u64).rotate_left(32));
        }
        x
    }
    fn key_of(done: u64, st: &St) -> (u64, u64) {
        let mut x = state_hash(&st.cur);
        for h in &st.hist { x = crate::rng::mix(x ^ state_hash(h)); }
        x = crate::rng::mix(x ^ st.hist.len() as u64 ^ (st.retained as u64) << 16 ^ (st.live as u64) << 40);
        (done, x)
    }
    let mut seen: HashSet<(u64, u64)> = HashSet::new();
    let mut roots: BTreeMap<u64, [u8; 32]> = BTreeMap::new();
    let mut root_of = |st: &State, hc: &mut HashCache| -> [u8; 32] {
        *roots.entry(state_hash(st)).or_insert_with(|| ref_trie::<H>(st, hc).hash())
    };
    // iterative DFS
    let mut stack: Vec<(u64, St)> = vec![(0, init_st)];
    let mut best = 0u32;
    let mut best_reason = String::new();
    while let Some((done, st)) = stack.pop() {
        if done.count_ones() as usize == n {
            // several linearisations may be valid (e.g. a commit and a rollback that overlap); the
            // store followed one of them: accept only one that ends in the state the store is in
            if root_of(&st.cur, hc) == final_root { return Ok(st.cur); }
            if best <= n as u32 { best = n as u32; best_reason = "every call can be ordered, but no valid order ends in the state the store is in after all tasks joined (a committed batch was lost or applied twice)".into(); }
            continue;
        }
        if !seen.insert(key_of(done, &st)) { continue; }
        // minimal events: invoked before every pending event returned
        let min_ret = (0..n).filter(|i| done & (1 << i) == 0).map(|i| h[i].ret).min().unwrap();
        for i in 0..n {
            if done & (1 << i) != 0 || h[i].inv > min_ret { continue; }
            let mut s2 = st.clone();
            let ok: Result<(), String> = match &h[i].ev {
                Ev::SessBegin { id, obs, prev_root } => {
                    let mut r = Ok(());
                    if *prev_root != root_of(&s2.cur, hc) { r = Err(format!("session {id} of {} has base root {} but the state then was another", h[i].task, hex(prev_root))); }
                    for (k, v) in obs {
                        let want = s2.cur.get(k).map(|x| value_bytes(k, *x));
                        if *v != want { r = Err(format!("session {id} of {} observed {} for {} which is not the state at its start", h[i].task, crate::exec::dv(v), hex(k))); break; }
                    }
                    s2.live += 1; s2.snaps.insert(*id, s2.cur.clone());
                    r
                }
                Ev::SessEnd { id } => { s2.live -= 1; s2.snaps.remove(id); Ok(()) }
                Ev::CommitOk { prev_root, new_root, writes } => {
                    if s2.live > 0 { Err(format!("commit of {} took effect while a session was alive", h[i].task)) }
                    else if *prev_root != root_of(&s2.cur, hc) { Err(format!("commit of {} succeeded on a stale base", h[i].task)) }
                    else {
                        s2.hist.push(s2.cur.clone());
                        for (k, v) in writes { match v { Some(v) => { s2.cur.insert(*k, *v); } None => { s2.cur.remove(k); } } }
                        if rollback_on { s2.retained = (s2.retained + 1).min(max_log); }
                        if *new_root != root_of(&s2.cur, hc) {
                            if std::env::var("SIM_LIN_DEBUG").is_ok() {
                                eprintln!("  store new_root {} model(root_of) {} direct ref_trie {} cur keys {:?}", hex(new_root), hex(&root_of(&s2.cur, hc)), hex(&ref_trie::<H>(&s2.cur, hc).hash()), s2.cur.iter().map(|(k, v)| (hex(k)[..12].to_string(), v.len, v.stamp)).collect::<Vec<_>>());
                                for drop_k in s2.cur.keys().cloned().collect::<Vec<_>>() { let mut alt = s2.cur.clone(); alt.remove(&drop_k); eprintln!("    without {}: {}", &hex(&drop_k)[..8], hex(&root_of(&alt, hc))); }
                                for st in init_hist.iter() { for (k, v) in st { if !s2.cur.contains_key(k) { let mut alt = s2.cur.clone(); alt.insert(*k, *v); eprintln!("    with {} ({},{}): {}", &hex(k)[..8], v.len, v.stamp, hex(&root_of(&alt, hc))); } } }
                            }
                            Err("committed root differs from the model".into())
                        } else { Ok(()) }
                    }
                }
                Ev::CommitStale { prev_root } => { if *prev_root == root_of(&s2.cur, hc) { Err(format!("commit of {} was rejected although its base was current", h[i].task)) } else { Ok(()) } }
                Ev::HandedBack => {
                    // legitimate only if a session was alive or another writer call was in flight
                    let other_writer = (0..n).any(|j| j != i && !matches!(h[j].ev, Ev::SessBegin { .. } | Ev::SessEnd { .. }) && h[j].inv < h[i].ret && h[j].ret > h[i].inv);
                    let pending_session = (0..n).any(|j| matches!(h[j].ev, Ev::SessBegin { .. }) && h[j].inv < h[i].ret && h[j].ret > h[i].inv);
                    if s2.live > 0 || other_writer || pending_session { Ok(()) } else { Err(format!("non-blocking commit of {} was handed back although nothing else was going on", h[i].task)) }
                }
                Ev::RollbackOk { n: k } => {
                    if s2.live > 0 { Err("rollback took effect while a session was alive".into()) }
                    else if !rollback_on || *k > s2.hist.len() { Err(format!("rollback({k}) succeeded with only {} commits", s2.hist.len())) }
                    else { let keep = s2.hist.len() - k; s2.cur = s2.hist[keep].clone(); s2.hist.truncate(keep); s2.retained = s2.retained.saturating_sub(*k); Ok(()) }
                }
                Ev::RollbackErr { n: k } => { if rollback_on && *k <= s2.retained { Err(format!("rollback({k}) refused although {} deltas are retained", s2.retained)) } else { Ok(()) } }
            };
            match ok {
                Ok(()) => stack.push((done | (1 << i), s2)),
                Err(r) => { if std::env::var("SIM_LIN_DEBUG").is_ok() { eprintln!("done={:b} reject i={} [{}..{}] {}: {}", done, i, h[i].inv, h[i].ret, h[i].task, r); } let d = done.count_ones(); if d >= best { best = d; best_reason = r; } }
            }
        }
    }
    // additional exact rule: a non-blocking commit whose whole call lay inside one session's lifetime must hand back
    Err(format!("no linearisation of {n} recorded calls matches the sequential model; deepest prefix {best} events, last obstacle: {best_reason}"))
}

// ---------------------------------------------------------------------------------------------
// C20: racing opens

#[derive(Clone, Debug, Serialize, Deserialize, PartialEq)]
pub struct OpenPlan {
    /// "existing" | "empty" | "missing"
    pub dir_state: String,
    pub initial: Vec<(K, VSpec)>,
    /// per opener: (yields before open, yields while holding, commit while holding, inject a failing commit)
    pub openers: Vec<(u32, u32, bool, bool)>,
    /// per opener: further attempts after a refusal
    #[serde(default)]
    pub retries: Vec<u32>,
}

static ALIVE: AtomicI64 = AtomicI64::new(0);

pub fn run_openrace(scen: &Scenario, dir: PathBuf, rep: Shared, disk: Arc<SimDisk>) {
    match scen.hasher { Hasher::Blake3 => openrace::<Blake3Hasher>(scen, dir, rep, disk), Hasher::Sha2 => openrace::<Sha2Hasher>(scen, dir, rep, disk) }
}

fn openrace<H: HashAlgorithm + Send + Sync + 'static>(scen: &Scenario, dir: PathBuf, rep: Shared, disk: Arc<SimDisk>) {
    let plan: OpenPlan = serde_json::from_value(scen.extra["plan_open"].clone()).expect("plan_open");
    let mut state = State::new();
    match plan.dir_state.as_str() {
        "existing" => {
            let n = match Nomt::<H>::open(to_options(&dir, &scen.opts)) { Ok(n) => n, Err(e) => { viol(&rep, "C20", "open-failed", format!("{e:#}")); return; } };
            let s = n.begin_session(SessionParams::default());
            let mut actuals: Vec<(Key, KeyReadWrite)> = plan.initial.iter().map(|(k, v)| (k.0, KeyReadWrite::Write(Some(value_bytes(&k.0, *v))))).collect();
            actuals.sort_by(|a, b| a.0.cmp(&b.0));
            if let Err(e) = s.finish(actuals).and_then(|f| f.commit(&n)) { viol(&rep, "C20", "commit-error", format!("{e:#}")); return; }
            for (k, v) in &plan.initial { state.insert(k.0, *v); }
            drop(n);
            disk.adopt(&dir);
        }
        "empty" => { std::fs::create_dir_all(&dir).unwrap(); disk.adopt(&dir); }
        _ => { std::fs::create_dir_all(dir.parent().unwrap()).unwrap(); }
    }
    ALIVE.store(0, Ordering::SeqCst);
    let shared_state = Arc::new(Mutex::new(state));
    #[derive(Clone, Debug)]
    struct OpenRec { task: String, seq_inv: u64, seq_ret: u64, ok: bool, drop_ret_seq: u64, own_mutations: Vec<String> }
    let recs: Arc<Mutex<Vec<OpenRec>>> = Arc::new(Mutex::new(Vec::new()));
    let mut hs = Vec::new();
    for (i, (pre, hold, commit, fail)) in plan.openers.iter().cloned().enumerate() {
        let extra: u32 = plan.retries.get(i).cloned().unwrap_or(0);
        let (dir, opts, rep2, disk2, recs, shared_state) = (dir.clone(), scen.opts.clone(), rep.clone(), disk.clone(), recs.clone(), shared_state.clone());
        hs.push(shuttle::thread::Builder::new().name(format!("opener-{i}")).spawn(move || {
            let task = format!("opener-{i}");
            for _ in 0..pre { shuttle::thread::yield_now(); }
            // a refused opener tries again a few times (a contender spinning on open while the
            // holder drops its handle is how a lock whose identity changes gets exposed)
            for attempt in 0..=extra {
            let task = task.clone();
            if attempt > 0 { for _ in 0..(1 + (attempt * 3 + i as u32) % 7) { shuttle::thread::yield_now(); } }
            let seq_inv = disk2.seq_now();
            let t0 = disk2.trace_len();
            let r = Nomt::<H>::open(to_options(&dir, &opts));
            let seq_ret = disk2.seq_now();
            match r {
                Err(_) => {
                    // a refused open must not have modified any file: mutating events issued by this task
                    let own: Vec<String> = disk2.trace().into_iter().skip(t0).filter(|e| e.task == task && !matches!(e.kind, 'L' | 'U')).map(|e| format!("{}:{}", e.site, e.file)).collect();
                    recs.lock().unwrap().push(OpenRec { task, seq_inv, seq_ret, ok: false, drop_ret_seq: 0, own_mutations: own });
                    continue;
                }
                Ok(n) => {
                    let alive = ALIVE.fetch_add(1, Ordering::SeqCst) + 1;
                    if alive > 1 { viol(&rep2, "C20", "two-live-handles", format!("{task}: open succeeded while another handle on the directory is alive")); }
                    disk2.adopt(&dir);
                    // what it shows is the committed state
                    { let st = shared_state.lock().unwrap().clone(); for (k, v) in &st { let got = n.read(*k).ok().flatten(); if got != Some(value_bytes(k, *v)) { viol(&rep2, "C20", "open-shows-wrong-state", format!("{task}: read({}) = {}", hex(k), crate::exec::dv(&got))); } } }
                    for _ in 0..hold { shuttle::thread::yield_now(); }
                    if commit {
                        if fail { disk2.arm_fail_next(libc::EIO); }
                        let s = n.begin_session(SessionParams::default());
                        let k: Key = crate::rng::Rng::new(i as u64 + 77).bytes32();
                        let v = VSpec { len: 9, stamp: 5000 + i as u32 };
                        match s.finish(vec![(k, KeyReadWrite::Write(Some(value_bytes(&k, v))))]).and_then(|f| f.commit(&n)) {
                            Ok(()) => { shared_state.lock().unwrap().insert(k, v); }
                            Err(_) => { if !fail { viol(&rep2, "C20", "commit-error", format!("{task}: commit failed without an injected fault")); } }
                        }
                        disk2.clear_persistent_fail();
                        if fail { crate::exec::quiesce(); }
                        if fail {
                            // the failed commit left old or new durable; learn which on the next open
                            let mut g = shared_state.lock().unwrap();
                            g.remove(&k);
                            drop(g);
                        }
                    }
                    ALIVE.fetch_sub(1, Ordering::SeqCst);
                    drop(n);
                    let drop_ret_seq = disk2.seq_now();
                    recs.lock().unwrap().push(OpenRec { task, seq_inv, seq_ret, ok: true, drop_ret_seq, own_mutations: vec![] });
                    break;
                }
            }
            }
        }).unwrap());
    }
    for h in hs { let _ = h.join(); }
    if !rep.lock().unwrap().violations.is_empty() { return; }
    let recs = recs.lock().unwrap().clone();
    for r in &recs {
        if !r.ok && !r.own_mutations.is_empty() {
            viol(&rep, "C20", "refused-open-modified-files", format!("{}: open was refused but issued {:?}", r.task, r.own_mutations));
            return;
        }
    }
    // after a handle's drop returned, none of its background writers is still going: no mutating
    // event may appear until the next open is invoked
    let tr = disk.trace();
    let mut wins: Vec<&OpenRec> = recs.iter().filter(|r| r.ok).collect();
    wins.sort_by_key(|r| r.seq_ret);
    for (a, w) in wins.iter().enumerate() {
        let next_inv = recs.iter().filter(|r| r.seq_inv >= w.drop_ret_seq).map(|r| r.seq_inv).min().unwrap_or(u64::MAX);
        let _ = a;
        if let Some(e) = tr.iter().find(|e| e.seq >= w.drop_ret_seq && e.seq < next_inv && !matches!(e.kind, 'L' | 'U')) {
            viol(&rep, "C20", "io-after-drop", format!("{}: {} on '{}' (task {}) was issued after the handle's drop had returned and before any further open", w.task, e.site, e.file, e.task));
            return;
        }
    }
    if wins.is_empty() && plan.dir_state != "missing" { viol(&rep, "C20", "no-open-succeeded", "every racing open was refused".into()); return; }
    // finally: the directory can be opened again and shows the committed state (old or new of a failed commit)
    match Nomt::<H>::open(to_options(&dir, &scen.opts)) {
        Ok(n) => {
            let st = shared_state.lock().unwrap().clone();
            for (k, v) in &st { let got = n.read(*k).ok().flatten(); if got != Some(value_bytes(k, *v)) { viol(&rep, "C20", "open-shows-wrong-state", format!("final open: read({}) = {}", hex(k), crate::exec::dv(&got))); return; } }
        }
        Err(e) => { viol(&rep, "C20", "reopen-after-drop-failed", format!("after every handle was dropped the directory cannot be opened: {e:#}")); return; }
    }
    let mut r = rep.lock().unwrap();
    r.commits += 1;
    r.reads_checked += recs.len() as u64;
    r.steps_done = recs.len();
    *r.probes.entry("open.refused".into()).or_default() += recs.iter().filter(|x| !x.ok).count() as u64;
    *r.probes.entry("open.won".into()).or_default() += recs.iter().filter(|x| x.ok).count() as u64;
    r.signature ^= recs.iter().fold(0u64, |a, x| crate::rng::mix(a ^ x.seq_inv ^ (x.seq_ret << 24) ^ x.ok as u64));
    let _ = Report::default;
}
