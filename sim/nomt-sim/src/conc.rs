//! Concurrency scenarios (C15, C20) — filled in later.
use crate::disk::SimDisk;
use crate::exec::Shared;
use crate::scenario::Scenario;
use std::path::PathBuf;
use std::sync::Arc;
pub fn run_concurrent(_s: &Scenario, _dir: PathBuf, _rep: Shared, _disk: Arc<SimDisk>) { unimplemented!() }
pub fn run_openrace(_s: &Scenario, _dir: PathBuf, _rep: Shared, _disk: Arc<SimDisk>) { unimplemented!() }
