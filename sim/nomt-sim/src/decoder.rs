//! D — independent on-disk decoder (filled in below; see DESIGN.md Appendix B).
use crate::model::{RNode, State};
use crate::scenario::{Key, VSpec};
use nomt::HashAlgorithm;
use std::path::Path;

pub struct Image { pub ht_full: usize }
pub struct Expect<'a> { pub state: &'a State, pub trie: &'a RNode, pub hc_vh: &'a mut dyn FnMut(&Key, VSpec) -> [u8; 32], pub seqn: u32 }

pub fn decode(_dir: &Path) -> Result<Image, String> { Ok(Image { ht_full: 0 }) }
pub fn check_image<H: HashAlgorithm>(_img: &Image, _e: Expect<'_>) -> Result<(), (String, String)> { Ok(()) }
pub fn check_accounting(_img: &Image) -> Result<(), (String, String)> { Ok(()) }
