//! D — independent decoder of the on-disk image, written from the documented layouts (module docs
//! of leaf/node.rs, branch/node.rs, ops/overflow.rs, free_list.rs, store/meta.rs, bitbox/*,
//! core/page{,_id}.rs, docs/nomt_specification.md; digest in DESIGN.md Appendix B). It shares no
//! code with `nomt` (it uses the external xxh3 implementation and the hasher's three functions).
use crate::model::{bit, RNode, State};
use crate::scenario::{hex, value_bytes, Key, VSpec};
use nomt::HashAlgorithm;
use std::collections::{BTreeMap, BTreeSet};
use std::fs::File;
use std::os::unix::fs::FileExt;
use std::path::Path;

const PAGE: usize = 4096;

#[derive(Debug, Clone, Default)]
pub struct Meta { pub ln_freelist_pn: u32, pub ln_bump: u32, pub bbn_freelist_pn: u32, pub bbn_bump: u32, pub sync_seqn: u32, pub buckets: u32, pub seed: [u8; 16], pub rb_start: u64, pub rb_end: u64 }

#[derive(Debug, Clone)]
pub enum Val { Inline(Vec<u8>), Overflow { len: u64, hash: [u8; 32], bytes: Vec<u8>, pages: Vec<u32> } }

#[derive(Debug, Clone, Default)]
pub struct StoreAcct { pub bump: u32, pub used: BTreeSet<u32>, pub free: BTreeSet<u32>, pub list_pages: BTreeSet<u32>, pub zero_untracked: BTreeSet<u32>, pub file_pages: u64 }

pub struct Image {
    pub meta: Meta,
    pub kv: BTreeMap<Key, Val>,
    pub ln: StoreAcct,
    pub bbn: StoreAcct,
    pub ht_full: usize,
    pub ht_tombstones: usize,
    /// full bucket -> (page path as child indices, raw page)
    pub ht_pages: BTreeMap<Vec<u8>, (u64, Vec<u8>)>,
    pub leaves: usize,
    pub branches: usize,
    pub overflow_values: usize,
    pub rb_segments: Vec<(String, Vec<u64>, u64)>,
}

pub struct Expect<'a> { pub state: &'a State, pub trie: &'a RNode, pub hc_vh: &'a mut dyn FnMut(&Key, VSpec) -> [u8; 32], pub seqn: u32 }

fn rd(f: &File, pn: u64) -> Result<Vec<u8>, String> {
    let mut b = vec![0u8; PAGE];
    f.read_exact_at(&mut b, pn * PAGE as u64).map_err(|e| format!("cannot read page {pn}: {e}"))?;
    Ok(b)
}
fn u16le(b: &[u8]) -> usize { u16::from_le_bytes([b[0], b[1]]) as usize }
fn u32le(b: &[u8]) -> u32 { u32::from_le_bytes([b[0], b[1], b[2], b[3]]) }
fn u64le(b: &[u8]) -> u64 { u64::from_le_bytes(b[..8].try_into().unwrap()) }

type E = (String, String);
fn e(class: &str, d: String) -> E { (class.to_string(), d) }

fn read_free_list(f: &File, head: u32, bump: u32, name: &str) -> Result<(BTreeSet<u32>, BTreeSet<u32>), String> {
    let mut free = BTreeSet::new();
    let mut pages = BTreeSet::new();
    let mut cur = head;
    while cur != 0 {
        if cur >= bump { return Err(format!("{name}: free-list page {cur} is beyond bump {bump}")); }
        if !pages.insert(cur) { return Err(format!("{name}: free-list chain loops at page {cur}")); }
        let p = rd(f, cur as u64)?;
        let prev = u32le(&p[0..4]);
        let n = u16le(&p[4..6]);
        if n > 1022 { return Err(format!("{name}: free-list page {cur} claims {n} items")); }
        for i in 0..n {
            let pn = u32le(&p[6 + 4 * i..]);
            if pn == 0 || pn >= bump { return Err(format!("{name}: free-list item {pn} out of range (bump {bump})")); }
            if !free.insert(pn) { return Err(format!("{name}: page {pn} is on the free list twice")); }
        }
        cur = prev;
    }
    for p in &pages { if free.contains(p) { return Err(format!("{name}: page {p} is both a free-list page and a free page")); } }
    Ok((free, pages))
}

fn get_bits(buf: &[u8], start: usize, len: usize, out: &mut Key, at: usize) {
    for i in 0..len {
        let b = (buf[(start + i) / 8] >> (7 - ((start + i) % 8))) & 1;
        if at + i < 256 && b == 1 { out[(at + i) / 8] |= 1 << (7 - ((at + i) % 8)); }
    }
}

/// Bijective base-64 decoding of a page label. The tree writes `id << 6` (the encoder shifts after
/// adding the last digit); both that and the plain documented value are accepted.
fn decode_label(label: &[u8]) -> Option<Vec<u8>> {
    let mut v: Vec<u8> = label.to_vec(); // big-endian
    fn is_zero(v: &[u8]) -> bool { v.iter().all(|b| *b == 0) }
    fn shr6(v: &mut Vec<u8>) { let mut carry = 0u16; for b in v.iter_mut() { let cur = (carry << 8) | *b as u16; *b = (cur >> 6) as u8; carry = cur & 0x3f; } }
    fn sub1(v: &mut Vec<u8>) { for b in v.iter_mut().rev() { if *b == 0 { *b = 0xff; } else { *b -= 1; break; } } }
    if is_zero(&v) { return Some(vec![]); }
    if v[31] & 0x3f != 0 { return None; }
    shr6(&mut v);
    let mut path = Vec::new();
    while !is_zero(&v) {
        sub1(&mut v);
        path.push(v[31] & 0x3f);
        shr6(&mut v);
        if path.len() > 42 { return None; }
    }
    path.reverse();
    Some(path)
}
fn encode_label(path: &[u8]) -> [u8; 32] {
    // big-endian accumulate: v = (v + digit + 1) << 6
    let mut v = [0u8; 32];
    for d in path {
        // add d+1
        let mut carry = *d as u16 + 1;
        for b in v.iter_mut().rev() { let s = *b as u16 + carry; *b = s as u8; carry = s >> 8; if carry == 0 { break; } }
        // shl 6
        let mut c = 0u16;
        for b in v.iter_mut().rev() { let cur = ((*b as u16) << 6) | c; *b = cur as u8; c = cur >> 8; }
    }
    v
}

pub fn decode(dir: &Path) -> Result<Image, String> {
    let open = |n: &str| File::open(dir.join(n)).map_err(|e| format!("cannot open {n}: {e}"));
    // --- meta ---
    let mf = open("meta")?;
    let mut mb = [0u8; 64];
    mf.read_exact_at(&mut mb, 0).map_err(|e| format!("meta: {e}"))?;
    if &mb[0..4] != b"NOMT" { return Err("meta: bad magic".into()); }
    if u32le(&mb[4..8]) != 1 { return Err(format!("meta: version {}", u32le(&mb[4..8]))); }
    let meta = Meta { ln_freelist_pn: u32le(&mb[8..]), ln_bump: u32le(&mb[12..]), bbn_freelist_pn: u32le(&mb[16..]), bbn_bump: u32le(&mb[20..]), sync_seqn: u32le(&mb[24..]), buckets: u32le(&mb[28..]), seed: mb[32..48].try_into().unwrap(), rb_start: u64le(&mb[48..]), rb_end: u64le(&mb[56..]) };
    if (meta.rb_start == 0) != (meta.rb_end == 0) { return Err(format!("meta: rollback live range ({}, {}) half nil", meta.rb_start, meta.rb_end)); }
    if meta.ln_bump < 1 || meta.bbn_bump < 1 { return Err("meta: bump < 1".into()); }

    // --- bbn ---
    let bf = open("bbn")?;
    let bbn_file_pages = bf.metadata().map_err(|e| e.to_string())?.len() / PAGE as u64;
    if (meta.bbn_bump as u64) > bbn_file_pages { return Err(format!("bbn: bump {} beyond file ({} pages)", meta.bbn_bump, bbn_file_pages)); }
    let (bbn_free, bbn_list) = read_free_list(&bf, meta.bbn_freelist_pn, meta.bbn_bump, "bbn")?;
    let mut bbn = StoreAcct { bump: meta.bbn_bump, free: bbn_free, list_pages: bbn_list, file_pages: bbn_file_pages, ..Default::default() };
    // (first key, [(key, leaf pn)])
    let mut branches: Vec<(u32, Vec<(Key, u32)>)> = Vec::new();
    for pn in 1..meta.bbn_bump {
        if bbn.free.contains(&pn) || bbn.list_pages.contains(&pn) { continue; }
        let p = rd(&bf, pn as u64)?;
        if p.iter().all(|b| *b == 0) { bbn.zero_untracked.insert(pn); continue; }
        if u32le(&p[0..4]) != pn { return Err(format!("bbn page {pn}: stored page number {} differs", u32le(&p[0..4]))); }
        let n = u16le(&p[4..6]);
        let pc = u16le(&p[6..8]);
        let plen = u16le(&p[8..10]);
        if n == 0 { return Err(format!("bbn page {pn}: zero separators")); }
        if pc > n || plen > 256 { return Err(format!("bbn page {pn}: prefix_compressed {pc} > n {n} or prefix_len {plen} > 256")); }
        let cells_end = 10 + 2 * n;
        if cells_end + 4 * n > PAGE { return Err(format!("bbn page {pn}: {n} separators do not fit")); }
        let sep_base = cells_end; // bit vector starts here: prefix ++ separators
        let mut items = Vec::with_capacity(n);
        let mut prev_end = 0usize;
        for i in 0..n {
            let end = u16le(&p[10 + 2 * i..]);
            if end < prev_end { return Err(format!("bbn page {pn}: separator {i} ends before it starts")); }
            let mut key = [0u8; 32];
            let mut at = 0;
            if i < pc { get_bits(&p[sep_base..], 0, plen, &mut key, 0); at = plen; }
            let slen = end - prev_end;
            if sep_base + (plen + end + 7) / 8 > PAGE - 4 * n { return Err(format!("bbn page {pn}: separators overlap node pointers")); }
            if at + slen > 256 { return Err(format!("bbn page {pn}: separator {i} longer than a key")); }
            get_bits(&p[sep_base..], plen + prev_end, slen, &mut key, at);
            prev_end = end;
            let ptr = u32le(&p[PAGE - 4 * (n - i)..]);
            items.push((key, ptr));
        }
        for w in items.windows(2) { if w[0].0 >= w[1].0 { return Err(format!("bbn page {pn}: separators not strictly increasing ({} >= {})", hex(&w[0].0), hex(&w[1].0))); } }
        bbn.used.insert(pn);
        branches.push((pn, items));
    }
    branches.sort_by(|a, b| a.1[0].0.cmp(&b.1[0].0));
    let mut seps: Vec<(Key, u32, u32)> = Vec::new();
    for (pn, items) in &branches { for (k, l) in items { seps.push((*k, *l, *pn)); } }
    for w in seps.windows(2) { if w[0].0 >= w[1].0 { return Err(format!("bbn: separators across branch pages {} and {} not strictly increasing ({} >= {})", w[0].2, w[1].2, hex(&w[0].0), hex(&w[1].0))); } }
    if let Some(first) = seps.first() { if first.0 != [0u8; 32] { return Err(format!("bbn: first separator is {}, not all-zero", hex(&first.0))); } }

    // --- ln ---
    let lf = open("ln")?;
    let ln_file_pages = lf.metadata().map_err(|e| e.to_string())?.len() / PAGE as u64;
    if (meta.ln_bump as u64) > ln_file_pages { return Err(format!("ln: bump {} beyond file ({} pages)", meta.ln_bump, ln_file_pages)); }
    let (ln_free, ln_list) = read_free_list(&lf, meta.ln_freelist_pn, meta.ln_bump, "ln")?;
    let mut ln = StoreAcct { bump: meta.ln_bump, free: ln_free, list_pages: ln_list, file_pages: ln_file_pages, ..Default::default() };
    let mut kv: BTreeMap<Key, Val> = BTreeMap::new();
    let mut overflow_values = 0;
    let mut last_key: Option<Key> = None;
    for (i, (sep, leaf_pn, bpn)) in seps.iter().enumerate() {
        if *leaf_pn == 0 || *leaf_pn >= meta.ln_bump { return Err(format!("bbn page {bpn}: leaf pointer {leaf_pn} out of range (bump {})", meta.ln_bump)); }
        if !ln.used.insert(*leaf_pn) { return Err(format!("ln page {leaf_pn} is referenced twice")); }
        let p = rd(&lf, *leaf_pn as u64)?;
        let n = u16le(&p[0..2]);
        if n == 0 { return Err(format!("leaf {leaf_pn}: empty leaf is referenced by branch page {bpn}")); }
        if 2 + 34 * n > PAGE { return Err(format!("leaf {leaf_pn}: {n} cells do not fit")); }
        let upper = seps.get(i + 1).map(|x| x.0);
        let cell = |j: usize| -> (Key, usize, bool) {
            let b = &p[2 + 34 * j..2 + 34 * j + 34];
            let off = u16::from_le_bytes([b[32], b[33]]);
            (b[..32].try_into().unwrap(), (off & 0x7fff) as usize, off & 0x8000 != 0)
        };
        for j in 0..n {
            let (key, off, ovf) = cell(j);
            let end = if j + 1 < n { cell(j + 1).1 } else { PAGE };
            if off < 2 + 34 * n || end < off || end > PAGE { return Err(format!("leaf {leaf_pn}: cell {j} has range {off}..{end}")); }
            if let Some(lk) = last_key { if key <= lk { return Err(format!("leaf {leaf_pn}: key {} not greater than the previous key {}", hex(&key), hex(&lk))); } }
            if key < *sep { return Err(format!("leaf {leaf_pn}: key {} below its separator {}", hex(&key), hex(sep))); }
            if let Some(u) = upper { if key >= u { return Err(format!("leaf {leaf_pn}: key {} not below the next separator {}", hex(&key), hex(&u))); } }
            last_key = Some(key);
            let raw = &p[off..end];
            let val = if !ovf { Val::Inline(raw.to_vec()) } else {
                if raw.len() < 44 || raw.len() % 4 != 0 || raw.len() > 40 + 15 * 4 { return Err(format!("leaf {leaf_pn}: overflow cell of {} bytes", raw.len())); }
                let len = u64le(&raw[0..8]);
                let hash: [u8; 32] = raw[8..40].try_into().unwrap();
                let mut queue: Vec<u32> = raw[40..].chunks(4).map(u32le).collect();
                let mut bytes = Vec::with_capacity(len as usize);
                let mut qi = 0;
                while qi < queue.len() {
                    let pn = queue[qi];
                    qi += 1;
                    if pn == 0 || pn >= meta.ln_bump { return Err(format!("overflow value of {}: page {pn} out of range", hex(&key))); }
                    if !ln.used.insert(pn) { return Err(format!("ln page {pn} is used twice (overflow value of {})", hex(&key))); }
                    let op = rd(&lf, pn as u64)?;
                    let np = u16le(&op[0..2]);
                    let nb = u16le(&op[2..4]);
                    if 4 + 4 * np + nb > PAGE { return Err(format!("overflow page {pn}: {np} pointers + {nb} bytes do not fit")); }
                    for q in 0..np { queue.push(u32le(&op[4 + 4 * q..])); }
                    bytes.extend_from_slice(&op[4 + 4 * np..4 + 4 * np + nb]);
                }
                if bytes.len() as u64 != len { return Err(format!("overflow value of {}: pages hold {} bytes, cell says {len}", hex(&key), bytes.len())); }
                overflow_values += 1;
                Val::Overflow { len, hash, bytes, pages: queue }
            };
            kv.insert(key, val);
        }
    }
    for pn in 1..meta.ln_bump {
        if ln.used.contains(&pn) || ln.free.contains(&pn) || ln.list_pages.contains(&pn) { continue; }
        ln.zero_untracked.insert(pn);
    }

    // --- ht ---
    let hf = open("ht")?;
    let nb = meta.buckets as usize;
    let meta_pages = (nb + 4095) / 4096;
    let hlen = hf.metadata().map_err(|e| e.to_string())?.len();
    if hlen != ((meta_pages + nb) * PAGE) as u64 { return Err(format!("ht: file length {hlen}, expected {}", (meta_pages + nb) * PAGE)); }
    let mut map = Vec::with_capacity(meta_pages * PAGE);
    for i in 0..meta_pages { map.extend_from_slice(&rd(&hf, i as u64)?); }
    let seed64 = u64::from_be_bytes(meta.seed[..8].try_into().unwrap());
    let mut ht_pages: BTreeMap<Vec<u8>, (u64, Vec<u8>)> = BTreeMap::new();
    let (mut full, mut tomb) = (0, 0);
    for b in 0..nb {
        let m = map[b];
        if m == 0x7f { tomb += 1; continue; }
        if m & 0x80 == 0 { if m != 0 { return Err(format!("ht: meta byte {m:#x} of bucket {b} is neither empty, tombstone nor full")); } continue; }
        full += 1;
        let page = rd(&hf, (meta_pages + b) as u64)?;
        let label: [u8; 32] = page[PAGE - 32..].try_into().unwrap();
        let Some(path) = decode_label(&label) else { return Err(format!("ht: bucket {b} is marked full but its label {} is not a page id", hex(&label))); };
        let enc = encode_label(&path);
        let hash = twox_hash::xxhash3_64::Hasher::oneshot_with_seed(seed64, &enc);
        if m != 0x80 | (hash >> 57) as u8 { return Err(format!("ht: bucket {b} holds page {:?} but its meta byte {m:#x} is not the tag of that page", path)); }
        // probe sequence must reach this bucket before any empty slot
        let (mut pos, mut step, mut found) = (hash % nb as u64, 0u64, false);
        for _ in 0..(2 * nb + 16) {
            pos = (pos + step) % nb as u64;
            step += 1;
            if pos as usize == b { found = true; break; }
            if map[pos as usize] == 0 { break; }
        }
        if !found { return Err(format!("ht: page {:?} in bucket {b} is not reachable through its probe sequence", path)); }
        if ht_pages.insert(path.clone(), (b as u64, page)).is_some() { return Err(format!("ht: page {:?} is stored in two buckets", path)); }
    }

    // --- rollback segments (light) ---
    let mut rb_segments = Vec::new();
    if let Ok(rd_dir) = std::fs::read_dir(dir) {
        let mut names: Vec<String> = rd_dir.filter_map(|e| e.ok()).filter_map(|e| e.file_name().into_string().ok()).filter(|n| n.starts_with("rollback.") && n.ends_with(".log")).collect();
        names.sort();
        for n in names {
            let f = open(&n)?;
            let len = f.metadata().map_err(|e| e.to_string())?.len();
            let mut ids = Vec::new();
            let mut pos = 0u64;
            while pos + 12 <= len {
                let mut h = [0u8; 12];
                if f.read_exact_at(&mut h, pos).is_err() { break; }
                let plen = u32le(&h[0..4]) as u64;
                let id = u64le(&h[4..12]);
                if id == 0 { break; }
                ids.push(id);
                pos = (pos + 12 + plen + 4095) / 4096 * 4096;
            }
            rb_segments.push((n, ids, len));
        }
    }

    Ok(Image { meta, kv, ln, bbn, ht_full: full, ht_tombstones: tomb, ht_pages, leaves: seps.len(), branches: branches.len(), overflow_values, rb_segments })
}

fn slot(layer: usize, j: usize) -> usize { (1 << layer) - 2 + j }

/// C16: the decoded image represents exactly the model state.
pub fn check_image<H: HashAlgorithm>(img: &Image, ex: Expect<'_>) -> Result<(), E> {
    if img.meta.sync_seqn != ex.seqn { return Err(e("disk-seqn", format!("meta sync_seqn = {}, model = {}", img.meta.sync_seqn, ex.seqn))); }
    // --- values ---
    for (k, v) in ex.state.iter() {
        let want = value_bytes(k, *v);
        match img.kv.get(k) {
            None => return Err(e("disk-key-missing", format!("key {} (len {}) is in the model but in no leaf", hex(k), v.len))),
            Some(Val::Inline(b)) => { if *b != want { return Err(e("disk-value", format!("leaf value of {} has {} bytes, model has {}", hex(k), b.len(), want.len()))); } if want.len() > 1332 { return Err(e("disk-value-form", format!("value of {} ({} bytes) is stored in-leaf", hex(k), want.len()))); } }
            Some(Val::Overflow { len, hash, bytes, .. }) => {
                if *len as usize != want.len() || *bytes != want { return Err(e("disk-value", format!("overflow value of {} has {} bytes, model has {}", hex(k), len, want.len()))); }
                let vh = (ex.hc_vh)(k, *v);
                if *hash != vh { return Err(e("disk-value-hash", format!("overflow cell of {} carries a wrong value hash", hex(k)))); }
            }
        }
    }
    if img.kv.len() != ex.state.len() {
        let extra = img.kv.keys().find(|k| !ex.state.contains_key(*k)).unwrap();
        return Err(e("disk-key-extra", format!("key {} is in a leaf but not in the model", hex(extra))));
    }
    // --- merkle pages ---
    let stored = &img.ht_pages;
    let mut visited: BTreeSet<Vec<u8>> = BTreeSet::new();
    fn walk_in_page<'a>(node: &'a RNode, page: &[u8], layer: usize, j: usize, path: &Vec<u8>, bottom: &mut Vec<(usize, &'a RNode)>) -> Result<(), E> {
        // `node` sits at (layer, j) of the page; layer 0 = the position above the page (not stored in it)
        if layer >= 1 {
            let s = slot(layer, j);
            let got = &page[32 * s..32 * s + 32];
            if got != node.hash() { return Err(e("disk-merkle-node", format!("page {:?} slot {s} = {}, reference trie has {}", path, hex(got), hex(&node.hash())))); }
        }
        if let RNode::Int { l, r, .. } = node {
            if layer == 6 { bottom.push((j, node)); return Ok(()); }
            walk_in_page(l, page, layer + 1, 2 * j, path, bottom)?;
            walk_in_page(r, page, layer + 1, 2 * j + 1, path, bottom)?;
        }
        Ok(())
    }
    fn visit(top: &RNode, path: Vec<u8>, stored: &BTreeMap<Vec<u8>, (u64, Vec<u8>)>, visited: &mut BTreeSet<Vec<u8>>) -> Result<(), E> {
        let Some((_, page)) = stored.get(&path) else { return Err(e("disk-merkle-page-missing", format!("page {:?} has content ({} leaves below) and is not marked elided, but is not stored", path, top.leaves()))); };
        visited.insert(path.clone());
        let mut bottom = Vec::new();
        walk_in_page(top, page, 0, 0, &path, &mut bottom)?;
        let elided = u64::from_le_bytes(page[PAGE - 40..PAGE - 32].try_into().unwrap());
        for (c, child_top) in bottom {
            let mut cp = path.clone();
            cp.push(c as u8);
            let is_elided = !path.is_empty() && ((elided >> c) & 1 == 1);
            if is_elided {
                if stored.contains_key(&cp) { return Err(e("disk-merkle-elided-but-stored", format!("page {:?} is marked elided in its parent but is stored", cp))); }
            } else {
                visit(child_top, cp, stored, visited)?;
            }
        }
        Ok(())
    }
    match ex.trie {
        RNode::Int { .. } => visit(ex.trie, vec![], stored, &mut visited)?,
        _ => {
            if let Some((_, page)) = stored.get(&vec![]) {
                if page[..64].iter().any(|b| *b != 0) { return Err(e("disk-merkle-node", "root page has nodes although the trie has fewer than two keys".into())); }
                visited.insert(vec![]);
            }
        }
    }
    if let Some(p) = stored.keys().find(|p| !visited.contains(*p)) {
        return Err(e("disk-merkle-stale-page", format!("page {:?} is stored (bucket {}) but the reference trie has no content there or an ancestor marks it elided", p, stored[p].0)));
    }
    Ok(())
}

/// C19: every page below the frontier is in use or on a free list, and nothing twice.
pub fn check_accounting(img: &Image) -> Result<(), E> {
    for (name, a) in [("ln", &img.ln), ("bbn", &img.bbn)] {
        if let Some(p) = a.used.iter().find(|p| a.free.contains(*p)) { return Err(e("page-free-and-used", format!("{name} page {p} is in use and on the free list"))); }
        if let Some(p) = a.used.iter().find(|p| a.list_pages.contains(*p)) { return Err(e("page-free-and-used", format!("{name} page {p} is in use and a free-list page"))); }
        if let Some(p) = a.zero_untracked.iter().next() { return Err(e("page-leaked", format!("{name} page {p} (bump {}) is neither in use nor on the free list: {} such pages", a.bump, a.zero_untracked.len()))); }
        let total = a.used.len() + a.free.len() + a.list_pages.len();
        if total as u32 != a.bump - 1 { return Err(e("page-accounting", format!("{name}: used {} + free {} + free-list pages {} != bump-1 = {}", a.used.len(), a.free.len(), a.list_pages.len(), a.bump - 1))); }
    }
    if img.ht_full != img.ht_pages.len() { return Err(e("ht-accounting", format!("{} full buckets, {} distinct pages", img.ht_full, img.ht_pages.len()))); }
    Ok(())
}

/// C17: what the committed image references (must not be touched before the next switch-over).
pub struct LiveSet { pub ln: BTreeSet<u32>, pub bbn: BTreeSet<u32>, pub ln_bump: u32, pub bbn_bump: u32, pub rb_live: Vec<(String, u64)>, pub rb_range: (u64, u64) }
pub fn live_set(img: &Image) -> LiveSet {
    let mut ln: BTreeSet<u32> = img.ln.used.clone(); ln.extend(img.ln.list_pages.iter().cloned());
    let mut bbn: BTreeSet<u32> = img.bbn.used.clone(); bbn.extend(img.bbn.list_pages.iter().cloned());
    let mut rb_live = Vec::new();
    for (name, ids, len) in &img.rb_segments {
        if ids.iter().any(|i| *i >= img.meta.rb_start && *i <= img.meta.rb_end) && img.meta.rb_start != 0 { rb_live.push((name.clone(), *len)); }
    }
    LiveSet { ln, bbn, ln_bump: img.meta.ln_bump, bbn_bump: img.meta.bbn_bump, rb_live, rb_range: (img.meta.rb_start, img.meta.rb_end) }
}
