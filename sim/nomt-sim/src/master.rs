//! The search driver: many short seeded runs (one child process per run, so that a replay in a
//! fresh process is literally the same thing), aggregation, minimisation, replay files, evidence.
use crate::exec::{Report, Violation};
use crate::gen::Tier;
use crate::rng::mix;
use crate::scenario::*;
use serde_json::json;
use std::collections::{BTreeMap, BTreeSet};
use std::io::Read;
use std::path::{Path, PathBuf};
use std::process::{Command, Stdio};
use std::sync::atomic::{AtomicU64, Ordering};
use std::sync::{Arc, Mutex};
use std::time::{Duration, Instant};

fn verif_root() -> PathBuf {
    // target/release/nomt-sim -> /verif/sim/target/release -> /verif
    let exe = std::env::current_exe().unwrap();
    exe.ancestors().nth(4).map(|p| p.to_path_buf()).unwrap_or_else(|| PathBuf::from("/verif"))
}

pub enum ChildOut { Report(Report), Abort(String), Timeout }

pub fn run_child(args: &[String], timeout: Duration) -> ChildOut {
    let exe = std::env::current_exe().unwrap();
    let mut child = Command::new(exe).args(args).stdout(Stdio::piped()).stderr(Stdio::piped()).stdin(Stdio::null()).spawn().expect("spawn child");
    let pid = child.id();
    let mut stdout = child.stdout.take().unwrap();
    let mut stderr = child.stderr.take().unwrap();
    let t_out = std::thread::spawn(move || { let mut s = String::new(); let _ = stdout.read_to_string(&mut s); s });
    let t_err = std::thread::spawn(move || { let mut s = Vec::new(); let _ = stderr.read_to_end(&mut s); String::from_utf8_lossy(&s).to_string() });
    let start = Instant::now();
    let status = loop {
        match child.try_wait().unwrap() {
            Some(st) => break Some(st),
            None => {
                if start.elapsed() > timeout { let _ = child.kill(); let _ = child.wait(); break None; }
                std::thread::sleep(Duration::from_millis(2));
            }
        }
    };
    let out = t_out.join().unwrap();
    let err = t_err.join().unwrap();
    let _ = std::fs::remove_dir_all(format!("/dev/shm/nomt-sim/{pid}"));
    let Some(status) = status else { return ChildOut::Timeout };
    for line in out.lines() {
        if let Some(js) = line.strip_prefix("RESULT ") {
            if let Ok(r) = serde_json::from_str::<Report>(js) { return ChildOut::Report(r); }
        }
    }
    let tail: String = err.lines().rev().take(12).collect::<Vec<_>>().into_iter().rev().collect::<Vec<_>>().join(" | ");
    ChildOut::Abort(format!("child exited with {status} without a result; stderr tail: {tail}"))
}

fn run_scenario_child(scen: &Scenario, tag: &str, timeout: Duration) -> ChildOut {
    let dir = PathBuf::from(format!("/dev/shm/nomt-sim/m{}", std::process::id()));
    std::fs::create_dir_all(&dir).unwrap();
    let f = dir.join(format!("scen-{tag}.json"));
    std::fs::write(&f, serde_json::to_string(scen).unwrap()).unwrap();
    let r = run_child(&["run".into(), "--scenario".into(), f.to_string_lossy().to_string()], timeout);
    let _ = std::fs::remove_file(&f);
    r
}

#[derive(serde::Deserialize, Default)]
struct KnownFile { findings: Vec<KnownEntry> }
#[derive(serde::Deserialize, Clone)]
struct KnownEntry { property: String, class: String, #[serde(default)] detail_contains: String, status: String, what: String }

fn load_known() -> Vec<KnownEntry> {
    let p = verif_root().join("known_findings.json");
    match std::fs::read_to_string(&p) { Ok(s) => serde_json::from_str::<KnownFile>(&s).map(|k| k.findings).unwrap_or_default(), Err(_) => vec![] }
}
fn known_match<'a>(known: &'a [KnownEntry], v: &Violation) -> Option<&'a KnownEntry> {
    known.iter().find(|k| k.status == "known" && k.property == v.property && k.class == v.class && (k.detail_contains.is_empty() || v.detail.contains(&k.detail_contains)))
}

struct Agg {
    evaluations: u64,
    nontrivial: BTreeSet<u64>,
    sums: BTreeMap<String, u64>,
    probes: BTreeMap<String, u64>,
    faults: BTreeMap<String, u64>,
    kinds: BTreeMap<String, u64>,
    violations: Vec<(Scenario, Violation)>,
    others: BTreeMap<String, u64>,
    harness: Vec<String>,
    samples: Vec<serde_json::Value>,
    sched_kinds: BTreeMap<String, u64>,
}

fn add(agg: &mut Agg, prop: &str, run_seed: u64, scen: &Scenario, r: &Report) {
    agg.evaluations += 1;
    let nontrivial = r.commits >= 1 && (r.reads_checked + r.proofs_checked + r.images_checked + r.witnesses_checked + r.decodes) > 0;
    if nontrivial { agg.nontrivial.insert(r.signature ^ mix(shape_hash(scen))); }
    for (k, v) in [("commits", r.commits), ("events", r.events), ("mutating_events", r.mutating_events), ("images_checked", r.images_checked), ("images_old", r.images_old), ("images_new", r.images_new), ("nested_images", r.nested_images),
        ("reads_checked", r.reads_checked), ("proofs_checked", r.proofs_checked), ("witnesses_checked", r.witnesses_checked), ("multiproofs_checked", r.multiproofs_checked), ("decodes", r.decodes), ("sync_ops", r.sched_steps), ("steps_done", r.steps_done as u64)] {
        *agg.sums.entry(k.to_string()).or_default() += v;
    }
    for (k, v) in &r.probes { *agg.probes.entry(k.clone()).or_default() += v; }
    for (k, v) in &r.faults_fired { *agg.faults.entry(k.clone()).or_default() += v; }
    for (k, v) in &r.event_kinds { *agg.kinds.entry(k.clone()).or_default() += v; }
    *agg.sched_kinds.entry(format!("{:?}", scen.sched)).or_default() += 1;
    for v in &r.violations {
        // Oracles are tagged with the property whose statement they come from. Some properties
        // contain other properties' observations in their own statement ("roots, values, proofs
        // and witness verdicts are identical ...", "exactly as if the chain had been committed",
        // "as if the store had never been closed"): there a divergence found by the shared oracle
        // is a violation of the property under check as well.
        let absorbed: &[&str] = match prop {
            "C13" => &["C01", "C02", "C05", "C06", "C07"],
            "C10" => &["C01", "C02", "C05"],
            "C11" => &["C01", "C02", "C05", "C12"],
            // after a rejected / deferred attempt everything must go on as if it had never been
            // made, including how later overlay commits are judged
            "C12" => &["C01", "C02", "C11"],
            "C09" => &["C01", "C02"],
            _ => &[],
        };
        let mut v = v.clone();
        if absorbed.contains(&v.property.as_str()) { v.class = format!("{}-{}", v.property, v.class); v.property = prop.to_string(); }
        let v = &v;
        if v.property == "HARNESS" { agg.harness.push(format!("seed {run_seed}: {}", v.detail)); }
        else if v.property == prop { agg.violations.push((scen.clone(), v.clone())); }
        else { *agg.others.entry(format!("{}:{}", v.property, v.class)).or_default() += 1; }
    }
    if nontrivial && (agg.samples.len() < 3 || (agg.samples.len() < 5 && !scen.faults.is_empty() && agg.samples.iter().all(|x| x["faults"].as_array().map_or(true, |a| a.is_empty())))) { agg.samples.push(sample_of(scen, r)); }
}

fn shape_hash(s: &Scenario) -> u64 {
    let mut h = 0u64;
    for st in &s.steps {
        let x = match st {
            Step::Commit { batch, nonblocking } => 1 + (batch.items.len() as u64) * 16 + *nonblocking as u64 * 7,
            Step::DeleteAll { keep } => 11 + *keep as u64 * 16,
            Step::OvBuild { parent, batch, .. } => 2 + (batch.items.len() as u64) * 16 + parent.map_or(0, |p| p as u64 + 1) * 1024,
            Step::OvCommit { id, .. } => 3 + *id as u64 * 16,
            Step::OvDrop { id } => 4 + *id as u64 * 16,
            Step::Rollback { n } => 5 + *n as u64 * 16,
            Step::Reopen { opts } => 6 + opts.commit_concurrency as u64 * 16,
            Step::Prepare { id, batch } => 7 + (batch.items.len() as u64) * 16 + *id as u64 * 4096,
            Step::CommitPrepared { id, nonblocking } => 8 + *id as u64 * 16 + *nonblocking as u64 * 7,
            Step::DropPrepared { id } => 9 + *id as u64 * 16,
            Step::TryWhileSession { id, overlay } => 10 + *id as u64 * 16 + *overlay as u64 * 5,
        };
        h = mix(h ^ x);
    }
    for f in &s.faults { h = mix(h ^ (f.step as u64) << 32 ^ f.event ^ mix(format!("{:?}", f.kind).len() as u64)); }
    h ^ mix(s.opts.commit_concurrency as u64 * 131 + s.opts.buckets as u64)
}

fn step_name(st: &Step) -> String {
    match st {
        Step::Commit { batch, nonblocking } => format!("commit({} items{}{})", batch.items.len(), if batch.witness { ", witness" } else { "" }, if *nonblocking { ", nonblocking" } else { "" }),
        Step::DeleteAll { keep } => format!("delete every key but {keep}"),
        Step::OvBuild { id, parent, batch } => format!("overlay#{id} on {:?} ({} items)", parent, batch.items.len()),
        Step::OvCommit { id, nonblocking } => format!("commit overlay#{id}{}", if *nonblocking { " nonblocking" } else { "" }),
        Step::OvDrop { id } => format!("drop overlay#{id}"),
        Step::Rollback { n } => format!("rollback({n})"),
        Step::Reopen { opts } => format!("reopen(cc={}, io={}, pc={}MiB)", opts.commit_concurrency, opts.io_workers, opts.page_cache_mb),
        Step::Prepare { id, batch } => format!("prepare changeset#{id} ({} items)", batch.items.len()),
        Step::CommitPrepared { id, nonblocking } => format!("commit changeset#{id}{}", if *nonblocking { " nonblocking" } else { "" }),
        Step::DropPrepared { id } => format!("drop changeset#{id}"),
        Step::TryWhileSession { id, overlay } => format!("try_commit_nonblocking({}#{id}) while a session is alive", if *overlay { "overlay" } else { "changeset" }),
    }
}

fn sample_of(s: &Scenario, r: &Report) -> serde_json::Value {
    json!({
        "run_seed": s.run_seed,
        "options": { "commit_concurrency": s.opts.commit_concurrency, "io_workers": s.opts.io_workers, "buckets": s.opts.buckets, "rollback": s.opts.rollback, "max_rollback_log_len": s.opts.max_rollback_log_len, "hasher": format!("{:?}", s.hasher), "warm_up": s.opts.warm_up },
        "knobs": s.knobs,
        "steps": s.steps.iter().map(step_name).collect::<Vec<_>>(),
        "faults": s.faults.iter().map(|f| format!("step {} event {}: {:?}", f.step, f.event, f.kind)).collect::<Vec<_>>(),
        "scheduler": format!("{:?} seed {}", s.sched, s.sched_seed),
        "extra": s.extra,
        "observed": { "commits": r.commits, "io_events": r.events, "images_checked": r.images_checked, "reads_checked": r.reads_checked, "proofs_checked": r.proofs_checked, "faults_fired": r.faults_fired },
    })
}

pub fn level_of(prop: &str) -> &'static str { match prop { "C03" | "C04" | "C14" => "fault_enumeration", _ => "exploration" } }

pub fn check(prop: &str, tier: Tier, args: &[String]) -> i32 {
    let t0 = Instant::now();
    let seed: u64 = std::env::var("VERIF_SEED").ok().and_then(|s| s.parse().ok()).unwrap_or(1);
    let arg = |n: &str| args.iter().position(|a| a == n).and_then(|i| args.get(i + 1).cloned());
    let n_runs: u64 = arg("--runs").and_then(|s| s.parse().ok()).unwrap_or_else(|| crate::props::runs(prop, tier));
    let jobs: usize = arg("--jobs").and_then(|s| s.parse().ok()).unwrap_or(16);
    let budget = Duration::from_secs(arg("--budget").and_then(|s| s.parse().ok()).unwrap_or(match tier { Tier::Quick => 170, Tier::Thorough => 1500 }));
    let run_timeout = Duration::from_secs(match tier { Tier::Quick => 120, Tier::Thorough => 400 });
    let tier_s = match tier { Tier::Quick => "quick", Tier::Thorough => "thorough" };
    // development aid: `--only-seed <run seed>` evaluates exactly one run seed (dry run + fault plans)
    let only_seed: Option<u64> = arg("--only-seed").and_then(|s| s.parse().ok());
    println!("VERIF_SEED={seed} property={prop} tier={tier_s} runs={n_runs} jobs={jobs}");

    let next = Arc::new(AtomicU64::new(0));
    let agg = Arc::new(Mutex::new(Agg { evaluations: 0, nontrivial: BTreeSet::new(), sums: BTreeMap::new(), probes: BTreeMap::new(), faults: BTreeMap::new(), kinds: BTreeMap::new(), violations: vec![], others: BTreeMap::new(), harness: vec![], samples: vec![], sched_kinds: BTreeMap::new() }));
    let timeouts = Arc::new(Mutex::new(Vec::<(u64, Scenario)>::new()));
    // Regression corpus: the replay files of every finding recorded for this property (all
    // repaired by now) run first; a fixed entry suppresses nothing, so a defect that returns is
    // reported like any other violation.
    let mut corpus: Vec<(String, Scenario)> = Vec::new();
    let mut corpus_skipped = 0u64;
    if let Ok(rd) = std::fs::read_dir(verif_root().join("findings")) {
        let mut files: Vec<PathBuf> = rd.filter_map(|e| e.ok().map(|e| e.path())).filter(|p| p.extension().map_or(false, |x| x == "json")).collect();
        files.sort();
        for f in files {
            let Some(doc) = std::fs::read_to_string(&f).ok().and_then(|s| serde_json::from_str::<serde_json::Value>(&s).ok()) else { corpus_skipped += 1; continue };
            if doc["property"].as_str() != Some(prop) { continue; }
            match serde_json::from_value::<Scenario>(doc["scenario"].clone()) { Ok(sc) => corpus.push((f.file_name().unwrap().to_string_lossy().to_string(), sc)), Err(_) => corpus_skipped += 1 }
        }
    }
    let corpus_n = corpus.len() as u64;
    {
        let corpus = Arc::new(Mutex::new(corpus));
        let mut hs = vec![];
        for w in 0..jobs.min(corpus_n as usize) {
            let (corpus, agg, timeouts, prop) = (corpus.clone(), agg.clone(), timeouts.clone(), prop.to_string());
            hs.push(std::thread::spawn(move || loop {
                let Some((name, sc)) = corpus.lock().unwrap().pop() else { break };
                match run_scenario_child(&sc, &format!("corpus{w}"), run_timeout) {
                    ChildOut::Report(r) => add(&mut agg.lock().unwrap(), &prop, sc.run_seed, &sc, &r),
                    ChildOut::Abort(msg) => { let mut a = agg.lock().unwrap(); a.evaluations += 1; a.violations.push((sc.clone(), Violation { property: prop.clone(), class: "process-abort".into(), detail: format!("{name}: {msg}"), step: None })); }
                    ChildOut::Timeout => timeouts.lock().unwrap().push((sc.run_seed, sc.clone())),
                }
            }));
        }
        for h in hs { h.join().unwrap(); }
    }
    let mut handles = vec![];
    for _ in 0..jobs {
        let (next, agg, timeouts, prop) = (next.clone(), agg.clone(), timeouts.clone(), prop.to_string());
        handles.push(std::thread::spawn(move || loop {
            let i = next.fetch_add(1, Ordering::SeqCst);
            if only_seed.is_some() && i > 0 { break; }
            if i >= n_runs || t0.elapsed() > budget { break; }
            if agg.lock().unwrap().violations.len() >= 8 { break; }
            // C13: eight consecutive runs share one history and differ in configuration / schedule
            let run_seed = if prop == "C13" { (mix(seed.wrapping_mul(0x9E3779B97F4A7C15) ^ mix(i / 8)) & !7) | (i % 8) } else { mix(seed.wrapping_mul(0x9E3779B97F4A7C15) ^ mix(i)) };
            let run_seed = only_seed.unwrap_or(run_seed);
            let base = crate::props::make(&prop, tier, run_seed);
            // fault-plan properties: a dry run yields the I/O events of the target step, from which
            // the explicit fault plans (crash points, loss patterns, failing operations) are derived
            let scens: Vec<Scenario> = if base.extra.get("plan").is_some() {
                let mut dry = base.clone();
                dry.extra["dry"] = serde_json::Value::Bool(true);
                match run_scenario_child(&dry, &format!("{i}d"), run_timeout) {
                    ChildOut::Report(r) => {
                        if !r.violations.is_empty() { add(&mut agg.lock().unwrap(), &prop, run_seed, &dry, &r); continue; }
                        crate::props::expand(&base, &r, tier)
                    }
                    ChildOut::Abort(msg) => { let mut a = agg.lock().unwrap(); a.evaluations += 1; a.violations.push((dry.clone(), Violation { property: prop.clone(), class: "process-abort".into(), detail: msg, step: None })); continue; }
                    ChildOut::Timeout => { timeouts.lock().unwrap().push((run_seed, dry.clone())); continue; }
                }
            } else { vec![base] };
            for (j, scen) in scens.iter().enumerate() {
            match run_scenario_child(scen, &format!("{i}-{j}"), run_timeout) {
                ChildOut::Report(r) => add(&mut agg.lock().unwrap(), &prop, run_seed, scen, &r),
                ChildOut::Abort(msg) => {
                    // a process abort (double panic, stack overflow, signal) inside the run
                    let v = Violation { property: prop.clone(), class: "process-abort".into(), detail: msg, step: None };
                    let mut a = agg.lock().unwrap();
                    a.evaluations += 1;
                    a.violations.push((scen.clone(), v));
                }
                ChildOut::Timeout => { timeouts.lock().unwrap().push((run_seed, scen.clone())); }
            }
            }
        }));
    }
    for h in handles { h.join().unwrap(); }
    // Runs that exceeded the wall-clock limit while 16 ran side by side (a loaded machine can do
    // that to a heavy scenario) are run again one at a time with three times the limit. Only a
    // run that still does not finish counts: C14 and C15 state "never a hang" / "no interleaving
    // deadlocks", so there it is a violation (a loop without any synchronisation inside nomt,
    // invisible to the scheduler's deadlock and step-cap detectors); elsewhere it is a harness error.
    let slow = timeouts.lock().unwrap().clone();
    let mut timeouts: Vec<u64> = Vec::new();
    let mut slow_runs = 0u64;
    let mut abandoned = 0u64;
    for (k, (run_seed, scen)) in slow.iter().enumerate() {
        // three are repeated; further slow runs are abandoned without a verdict (counted in the
        // evidence): not finishing in time is neither a violation nor a malfunction
        if k >= 3 { abandoned += 1; continue; }
        match run_scenario_child(scen, &format!("slow{k}"), run_timeout * 3) {
            ChildOut::Report(r) => { slow_runs += 1; add(&mut agg.lock().unwrap(), prop, *run_seed, scen, &r); }
            ChildOut::Abort(msg) => { let mut a = agg.lock().unwrap(); a.evaluations += 1; a.violations.push((scen.clone(), Violation { property: prop.to_string(), class: "process-abort".into(), detail: msg, step: None })); }
            ChildOut::Timeout => {
                if prop == "C14" || prop == "C15" {
                    let v = Violation { property: prop.to_string(), class: "hang-timeout".into(), detail: format!("the run did not finish within {} s (run alone)", run_timeout.as_secs() * 3), step: None };
                    let mut a = agg.lock().unwrap();
                    a.evaluations += 1;
                    a.violations.push((scen.clone(), v));
                } else { timeouts.push(*run_seed); }
            }
        }
    }
    let mut agg = Arc::try_unwrap(agg).ok().unwrap().into_inner().unwrap();

    // --- triage ---
    let known = load_known();
    let mut exit = 0;
    let mut lines = Vec::new();
    let mut reported: BTreeSet<String> = BTreeSet::new();
    let mut n_viol = 0;
    let mut known_hits: BTreeMap<String, u64> = BTreeMap::new();
    let vio = std::mem::take(&mut agg.violations);
    for (scen, v) in &vio {
        let run_seed = &scen.run_seed;
        if let Some(k) = known_match(&known, v) { *known_hits.entry(format!("property={} {}", k.property, k.what)).or_default() += 1; continue; }
        n_viol += 1;
        let key = format!("{}:{}", v.property, v.class);
        if reported.contains(&key) { continue; }
        reported.insert(key);
        let path = write_replay(prop, *run_seed, scen, v, tier, t0, budget);
        lines.push(format!("VIOLATION property={} replay={}", prop, path.display()));
        println!("  class={} step={:?} detail={}", v.class, v.step, v.detail);
        exit = 1;
    }
    for (k, n) in &known_hits { println!("KNOWN-FINDING: {k} (seen in {n} runs)"); }
    for l in &lines { println!("{l}"); }
    if !agg.harness.is_empty() || (!timeouts.is_empty() && exit == 0) {
        for h in agg.harness.iter().take(5) { eprintln!("HARNESS ERROR: {h}"); }
        for t in timeouts.iter().take(5) { eprintln!("HARNESS ERROR: run seed {t} exceeded the wall-clock limit"); }
        if exit == 0 { exit = 2; }
    }

    // --- evidence ---
    let wall = t0.elapsed().as_secs_f64();
    let probes_at_zero: Vec<&str> = ["beatree.leaf_split", "beatree.leaf_merge", "beatree.leaf_bulk_split", "beatree.branch_bulk_split", "beatree.branch_merge", "beatree.stop_prefix_compression", "beatree.extend_range_request", "beatree.overflow_indirect_pages", "beatree.free_list_multi_page", "bitbox.bucket_allocated", "bitbox.tombstone_probed", "bitbox.wal_replayed", "bitbox.stale_wal_discarded", "merkle.page_elided", "merkle.page_promoted", "merkle.reconstruct_pages", "merkle.root_page_handoff", "seglog.segment_rollover"].into_iter().filter(|k| !agg.probes.contains_key(*k)).collect();
    let ev = json!({
        "property_id": prop, "tier": tier_s, "seed": seed, "level": level_of(prop), "wall_s": wall, "violations": n_viol,
        "coverage": {
            "evaluations": agg.evaluations,
            "distinct_nontrivial": agg.nontrivial.len(),
            "rule": "one evaluation = one simulated execution of the real nomt crate under the seeded scheduler (one child process per run; scenario, options, fault plan and scheduler seed all derived from VERIF_SEED and the run index). Non-trivial = the run performed at least one successful commit and at least one oracle comparison (read, proof, witness, image or decode); distinct = distinct values of hash(step shapes, fault plan, options) xor hash(sequence of (site, file, kind) of all mutating I/O events as interleaved by the scheduler).",
            "samples": agg.samples,
            "runs_per_hour": if wall > 0.0 { (agg.evaluations as f64 / wall * 3600.0) as u64 } else { 0 },
            "simulated_time": { "sync_operations": agg.sums.get("sync_ops"), "io_events": agg.sums.get("events"), "mutating_io_events": agg.sums.get("mutating_events"), "note": "nomt has no clocks or timers; simulated time is reported as scheduler-visible synchronisation operations and I/O events" },
            "totals": agg.sums,
            "faults_fired": agg.faults,
            "reach_probes": agg.probes,
            "reach_probes_at_zero": probes_at_zero,
            "io_event_kinds": agg.kinds,
            "schedulers": agg.sched_kinds,
            "known_findings_seen": known_hits,
            "observations_tagged_to_other_properties": agg.others,
            "timeouts": timeouts.len(),
            "slow_runs_repeated_alone": slow_runs,
            "slow_runs_abandoned_without_verdict": abandoned,
            "regression_corpus": { "replayed": corpus_n, "unreadable": corpus_skipped, "source": "findings/*.json of this property" },
            "real_vs_stub": { "real": "all of nomt and nomt-core (beatree, bitbox, merkle, rollback, seglog, overlay, store, sync, recovery, page cache, IoKind::get_result, Fsyncer logic, flock)", "stub": "io_uring ring loop (replaced by a pread/pwrite worker under the scheduler); parking_lot, crossbeam(-channel), threadpool, thread_local (shims over shuttle's Mutex/Condvar/thread); O_DIRECT off (tmpfs)" },
        },
        "assumptions": [
            "std::sync::atomic operations are not scheduling points; weak-memory reorderings are not explored",
            "power loss: in-place page writes are lost independently; size-changing operations (appends, set_len) and directory operations survive as a prefix",
            "a clean batch is evidence, not proof: the space is sampled, not enumerated",
        ],
    });
    let evp = verif_root().join("evidence");
    let _ = std::fs::create_dir_all(&evp);
    std::fs::write(evp.join(format!("{prop}.json")), serde_json::to_string_pretty(&ev).unwrap()).unwrap();
    let _ = std::fs::remove_dir_all(format!("/dev/shm/nomt-sim/m{}", std::process::id()));
    println!("property={prop} evaluations={} distinct_nontrivial={} violations={} known={} wall={:.1}s exit={exit}", agg.evaluations, agg.nontrivial.len(), n_viol, known_hits.values().sum::<u64>(), wall);
    exit
}

fn same(v: &Violation, r: &Report) -> bool {
    r.violations.iter().any(|x| (x.property == v.property && x.class == v.class) || format!("{}-{}", x.property, x.class) == v.class)
}

fn try_scen(s: &Scenario, v: &Violation, extra_seeds: u64, timeout: Duration) -> Option<Scenario> {
    // the schedule is a function of the operations: after a structural change re-search a few seeds
    for j in 0..=extra_seeds {
        let mut c = s.clone();
        if j > 0 { c.sched_seed = mix(s.sched_seed ^ j); }
        if let ChildOut::Report(r) = run_scenario_child(&c, "min", timeout) { if same(v, &r) { return Some(c); } }
    }
    None
}

/// Greedy minimisation while the same violation class persists.
pub fn minimise(orig: &Scenario, v: &Violation, deadline: Instant) -> (Scenario, u64) {
    let timeout = Duration::from_secs(120);
    let mut cur = orig.clone();
    let mut tried = 0u64;
    let alive = |d: Instant| Instant::now() < d;
    // 0. concurrency plans (C15): drop whole tasks, then single calls, then arguments. Every
    //    structural change alters the interleaving, so a few schedule seeds are re-searched.
    if cur.extra.get("plan_conc").is_some() {
        use crate::conc::{ConcPlan, WOp};
        let get = |s: &Scenario| -> Option<ConcPlan> { serde_json::from_value(s.extra["plan_conc"].clone()).ok() };
        let put = |s: &Scenario, p: &ConcPlan| -> Scenario { let mut c = s.clone(); c.extra["plan_conc"] = serde_json::to_value(p).unwrap(); c };
        let mut attempt = |cur: &mut Scenario, p: ConcPlan, tried: &mut u64| -> bool { let c = put(cur, &p); if c == *cur { return false; } *tried += 1; if let Some(c) = try_scen(&c, v, 5, timeout) { *cur = c; true } else { false } };
        if let Some(p0) = get(&cur) {
            // tasks
            let mut i = p0.readers.len();
            while i > 0 && alive(deadline) { i -= 1; if let Some(mut p) = get(&cur) { if i < p.readers.len() { p.readers.remove(i); attempt(&mut cur, p, &mut tried); } } }
            let mut i = p0.writers.len();
            while i > 0 && alive(deadline) { i -= 1; if let Some(mut p) = get(&cur) { if i < p.writers.len() && p.writers.len() > 1 { p.writers.remove(i); attempt(&mut cur, p, &mut tried); } } }
            // calls
            for side in 0..2 {
                let nt = get(&cur).map_or(0, |p| if side == 0 { p.writers.len() } else { p.readers.len() });
                for t in 0..nt {
                    let mut j = get(&cur).map_or(0, |p| if side == 0 { p.writers[t].len() } else { p.readers[t].len() });
                    while j > 0 && alive(deadline) { j -= 1; if let Some(mut p) = get(&cur) { if side == 0 { if j < p.writers[t].len() { p.writers[t].remove(j); } } else if j < p.readers[t].len() { p.readers[t].remove(j); } attempt(&mut cur, p, &mut tried); } }
                }
            }
            // arguments
            if alive(deadline) { if let Some(mut p) = get(&cur) { for t in p.readers.iter_mut() { for o in t.iter_mut() { o.helpers = 0; o.hold = 0; } } for t in p.writers.iter_mut() { for o in t.iter_mut() { if let WOp::Commit { par, retries, .. } = o { *par = 0; *retries = 0; } } } attempt(&mut cur, p, &mut tried); } }
            if alive(deadline) { if let Some(mut p) = get(&cur) { for t in p.readers.iter_mut() { for o in t.iter_mut() { o.proves.clear(); o.reads.truncate(1); } } attempt(&mut cur, p, &mut tried); } }
            if alive(deadline) { if let Some(mut p) = get(&cur) { for t in p.writers.iter_mut() { for o in t.iter_mut() { if let WOp::Commit { writes, .. } | WOp::OverlayCommit { writes, .. } = o { writes.truncate(1); } } } attempt(&mut cur, p, &mut tried); } }
            if alive(deadline) { if let Some(mut p) = get(&cur) { p.initial_commits = 1; attempt(&mut cur, p, &mut tried); } }
            for f in [|s: &mut Scenario| s.opts.commit_concurrency = 1, |s: &mut Scenario| s.opts.io_workers = 1, |s: &mut Scenario| s.opts.warm_up = false, |s: &mut Scenario| s.sched = Sched::Random] {
                if !alive(deadline) { break; }
                let mut c = cur.clone(); f(&mut c);
                if c != cur { tried += 1; if let Some(c) = try_scen(&c, v, 5, timeout) { cur = c; } }
            }
        }
        return (cur, tried);
    }
    // 1. cut everything after the violating step
    if let Some(st) = v.step { if st + 1 < cur.steps.len() { let mut c = cur.clone(); c.steps.truncate(st + 1); tried += 1; if let Some(c) = try_scen(&c, v, 2, timeout) { cur = c; } } }
    // 2. drop steps, last to first
    let mut i = cur.steps.len();
    while i > 0 && alive(deadline) {
        i -= 1;
        if cur.steps.len() <= 1 { break; }
        let mut c = cur.clone();
        c.steps.remove(i);
        c.faults.retain(|f| f.step != i);
        for f in c.faults.iter_mut() { if f.step > i { f.step -= 1; } }
        tried += 1;
        if let Some(c) = try_scen(&c, v, 3, timeout) { cur = c; }
    }
    // 3. drop fault entries
    let mut i = cur.faults.len();
    while i > 0 && alive(deadline) { i -= 1; let mut c = cur.clone(); c.faults.remove(i); tried += 1; if let Some(c) = try_scen(&c, v, 1, timeout) { cur = c; } }
    // 4. shrink batches: halves, then single items; clear hints
    for si in 0..cur.steps.len() {
        loop {
            if !alive(deadline) { break; }
            let n = match &cur.steps[si] { Step::Commit { batch, .. } | Step::OvBuild { batch, .. } | Step::Prepare { batch, .. } => batch.items.len(), _ => 0 };
            if n <= 1 { break; }
            let mut progressed = false;
            for half in 0..2 {
                let mut c = cur.clone();
                if let Step::Commit { batch, .. } | Step::OvBuild { batch, .. } | Step::Prepare { batch, .. } = &mut c.steps[si] {
                    let keep: Vec<_> = if half == 0 { batch.items[..n / 2].to_vec() } else { batch.items[n / 2..].to_vec() };
                    batch.items = keep;
                }
                tried += 1;
                if let Some(c) = try_scen(&c, v, 2, timeout) { cur = c; progressed = true; break; }
            }
            if !progressed { break; }
        }
        // ddmin over the remaining items: remove chunks of decreasing size
        let mut chunk = match &cur.steps[si] { Step::Commit { batch, .. } | Step::OvBuild { batch, .. } | Step::Prepare { batch, .. } => batch.items.len() / 4, _ => 0 };
        while chunk >= 2 && alive(deadline) {
            let n = match &cur.steps[si] { Step::Commit { batch, .. } | Step::OvBuild { batch, .. } | Step::Prepare { batch, .. } => batch.items.len(), _ => 0 };
            let mut start = 0usize;
            let mut removed_any = false;
            while start < n && alive(deadline) {
                let mut c = cur.clone();
                let mut ok = false;
                if let Step::Commit { batch, .. } | Step::OvBuild { batch, .. } | Step::Prepare { batch, .. } = &mut c.steps[si] {
                    if start < batch.items.len() && batch.items.len() > chunk { let end = (start + chunk).min(batch.items.len()); batch.items.drain(start..end); ok = true; }
                }
                if !ok { break; }
                tried += 1;
                if let Some(c) = try_scen(&c, v, 1, timeout) { cur = c; removed_any = true; } else { start += chunk; }
            }
            if !removed_any || chunk > 2 { chunk /= 2; }
        }
        let n = match &cur.steps[si] { Step::Commit { batch, .. } | Step::OvBuild { batch, .. } | Step::Prepare { batch, .. } => batch.items.len(), _ => 0 };
        if n <= 40 {
            let mut j = n;
            while j > 0 && alive(deadline) {
                j -= 1;
                let mut c = cur.clone();
                if let Step::Commit { batch, .. } | Step::OvBuild { batch, .. } | Step::Prepare { batch, .. } = &mut c.steps[si] { if batch.items.len() > 1 { batch.items.remove(j); } else { continue; } }
                tried += 1;
                if let Some(c) = try_scen(&c, v, 2, timeout) { cur = c; }
            }
        }
        if !alive(deadline) { break; }
        let mut c = cur.clone();
        if let Step::Commit { batch, .. } | Step::OvBuild { batch, .. } | Step::Prepare { batch, .. } = &mut c.steps[si] { batch.warm.clear(); batch.preserve.clear(); batch.reads.clear(); batch.proves.clear(); }
        if c != cur { tried += 1; if let Some(c) = try_scen(&c, v, 2, timeout) { cur = c; } }
    }
    // 5. simpler configuration
    let simpl: Vec<Box<dyn Fn(&mut Scenario)>> = vec![
        Box::new(|s| s.opts.commit_concurrency = 1), Box::new(|s| s.opts.io_workers = 1), Box::new(|s| s.opts.warm_up = false),
        Box::new(|s| s.opts.prepopulate = false), Box::new(|s| s.sched = Sched::Random), Box::new(|s| s.probes.clear()),
        Box::new(|s| { for st in s.steps.iter_mut() { if let Step::Commit { batch, .. } | Step::OvBuild { batch, .. } | Step::Prepare { batch, .. } = st { for (_, a) in batch.items.iter_mut() { if let Act::Write(Some(v)) | Act::Rtw(Some(v)) = a { if v.len > 64 { v.len = 8; } } } } } }),
    ];
    for f in simpl { if !alive(deadline) { break; } let mut c = cur.clone(); f(&mut c); if c != cur { tried += 1; if let Some(c) = try_scen(&c, v, 3, timeout) { cur = c; } } }
    (cur, tried)
}

fn write_replay(prop: &str, run_seed: u64, scen: &Scenario, v: &Violation, _tier: Tier, t0: Instant, budget: Duration) -> PathBuf {
    // confirm, then minimise within what is left of the budget (at least 45 s, at most 240 s)
    let confirm = if v.class == "hang-timeout" { matches!(run_scenario_child(scen, "confirm", Duration::from_secs(150)), ChildOut::Timeout) } else { matches!(run_scenario_child(scen, "confirm", Duration::from_secs(300)), ChildOut::Report(r) if same(v, &r)) };
    let left = budget.saturating_sub(t0.elapsed());
    let deadline = Instant::now() + left.clamp(Duration::from_secs(45), Duration::from_secs(240));
    let (min, tried) = if confirm && v.class != "hang-timeout" { minimise(scen, v, deadline) } else { (scen.clone(), 0) };
    let final_v = if v.class == "hang-timeout" { v.clone() } else { match run_scenario_child(&min, "final", Duration::from_secs(300)) { ChildOut::Report(r) => r.violations.into_iter().find(|x| (x.property == v.property && x.class == v.class) || format!("{}-{}", x.property, x.class) == v.class).map(|mut x| { x.property = v.property.clone(); x.class = v.class.clone(); x }).unwrap_or_else(|| v.clone()), _ => v.clone() } };
    let dir = verif_root().join("replays");
    let _ = std::fs::create_dir_all(&dir);
    let path = dir.join(format!("{prop}-{run_seed}-{:04x}.json", shape_hash(scen) & 0xffff));
    let calls = |s: &Scenario| -> u64 { s.extra.get("plan_conc").map_or(0, |p| ["writers", "readers"].iter().map(|k| p[*k].as_array().map_or(0, |a| a.iter().map(|t| t.as_array().map_or(0, |x| x.len() as u64)).sum::<u64>())).sum()) };
    let (calls_before, calls_after) = (calls(scen), calls(&min));
    let doc = json!({
        "concurrent_calls": { "before": calls_before, "after": calls_after },
        "property": prop, "violation": final_v.class, "first_divergence": final_v.detail, "step": final_v.step, "run_seed": run_seed,
        "confirmed_on_rerun": confirm, "minimisation": { "candidates_tried": tried, "steps_before": scen.steps.len(), "steps_after": min.steps.len(), "faults_before": scen.faults.len(), "faults_after": min.faults.len() },
        "scenario": min,
    });
    std::fs::write(&path, serde_json::to_string_pretty(&doc).unwrap()).unwrap();
    path
}

/// `nomt-sim minimise <replay-or-scenario.json> [--secs n]`: run it, take the first violation and
/// shrink the scenario while the same class persists; writes `<file>.min.json`.
pub fn minimise_file(file: &str, secs: u64) -> i32 {
    let doc: serde_json::Value = match std::fs::read_to_string(file).ok().and_then(|s| serde_json::from_str(&s).ok()) { Some(d) => d, None => { eprintln!("cannot read {file}"); return 2; } };
    let scen: Scenario = match serde_json::from_value(if doc.get("scenario").is_some() { doc["scenario"].clone() } else { doc.clone() }) { Ok(s) => s, Err(e) => { eprintln!("bad scenario in {file}: {e}"); return 2; } };
    let ChildOut::Report(r) = run_scenario_child(&scen, "min0", Duration::from_secs(600)) else { eprintln!("the scenario did not finish"); return 2; };
    let Some(v) = r.violations.first().cloned() else { println!("no violation to minimise"); return 0; };
    println!("minimising {}:{} ({})", v.property, v.class, v.detail.chars().take(200).collect::<String>());
    let (min, tried) = minimise(&scen, &v, Instant::now() + Duration::from_secs(secs));
    let out = format!("{file}.min.json");
    let docm = json!({ "property": v.property, "violation": v.class, "first_divergence": v.detail, "step": v.step, "run_seed": scen.run_seed, "minimisation": { "candidates_tried": tried, "steps_before": scen.steps.len(), "steps_after": min.steps.len() }, "scenario": min });
    std::fs::write(&out, serde_json::to_string_pretty(&docm).unwrap()).unwrap();
    println!("wrote {out} ({tried} candidates)");
    0
}

pub fn replay(file: &str) -> i32 {
    let doc: serde_json::Value = match std::fs::read_to_string(file).ok().and_then(|s| serde_json::from_str(&s).ok()) { Some(d) => d, None => { eprintln!("cannot read replay file {file}"); return 2; } };
    let scen: Scenario = match serde_json::from_value(doc["scenario"].clone()) { Ok(s) => s, Err(e) => { eprintln!("bad scenario in {file}: {e}"); return 2; } };
    let class = doc["violation"].as_str().unwrap_or("").to_string();
    let prop = doc["property"].as_str().unwrap_or("").to_string();
    match run_scenario_child(&scen, "replay", Duration::from_secs(if class == "hang-timeout" { 150 } else { 600 })) {
        ChildOut::Report(r) => {
            for v in &r.violations { println!("  observed: property={} class={} step={:?} detail={}", v.property, v.class, v.step, v.detail); }
            if r.violations.iter().any(|v| (v.property == prop && v.class == class) || format!("{}-{}", v.property, v.class) == class) {
                println!("VIOLATION property={prop} replay={}", Path::new(file).display());
                1
            } else { println!("replay of {file}: the recorded violation ({prop}:{class}) did not occur"); 0 }
        }
        ChildOut::Abort(m) => { if class == "process-abort" { println!("VIOLATION property={prop} replay={file}"); 1 } else { eprintln!("HARNESS ERROR: {m}"); 2 } }
        ChildOut::Timeout => { if class == "hang-timeout" { println!("  observed: the run did not finish within the wall-clock limit"); println!("VIOLATION property={prop} replay={file}"); 1 } else { eprintln!("HARNESS ERROR: replay timed out"); 2 } }
    }
}
