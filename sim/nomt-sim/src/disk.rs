//! SimDisk — the simulated disk. The store works on real files on tmpfs; this observer sees every
//! mutating file operation *before* it is performed (hooks in /repo under `cfg(nomt_verif)`), and
//! keeps next to each live directory a **durable shadow**: the content that would survive a power
//! loss, i.e. only what a completed fsync of the file (and, for names, of the directory) covered.
//!
//! From that it can produce, at any event boundary and without stopping the run,
//!  * a process-crash image  = sparse copy of the live directory (the page cache survives), and
//!  * a power-loss image     = durable shadow + a chosen subset of the not-yet-synced operations.
//! It is also the fault-injection face: an event can be answered with an errno.
use crate::scenario::{Fault, FaultKind, Knobs};
use simrt::hooks::{Observer, Op, Verdict};
use std::collections::BTreeMap;
use std::fs::{self, File, OpenOptions};
use std::os::fd::{AsRawFd, RawFd};
use std::os::unix::fs::FileExt;
use std::path::{Path, PathBuf};
use std::sync::Mutex;

pub const PAGE: u64 = 4096;

#[derive(Clone, Debug)]
pub enum FOp {
    /// In-place or extending positional write.
    Write { off: u64, data: Vec<u8> },
    /// Write at the cursor / EOF (wal blob, segment header and payload).
    Append { off: u64, data: Vec<u8> },
    SetLen(u64),
}

#[derive(Clone, Debug)]
pub enum DirOp {
    /// (name, unique id of this creation: names are reused, e.g. segment 1 after the log was emptied)
    Create(String, u64),
    Unlink(String),
}

#[derive(Default)]
struct FileTrack { unsynced: Vec<FOp> }

struct DirTrack {
    live: PathBuf,
    durable: PathBuf,
    files: BTreeMap<String, FileTrack>,
    dirops: Vec<DirOp>,
    level: usize,
    /// Stable identity (index in `dirs` shifts when images are forgotten).
    id: usize,
}

#[derive(Clone, Debug, PartialEq)]
pub enum ImageKind { Process, Torn, Power }

#[derive(Clone, Debug)]
pub struct ImageRec {
    pub path: PathBuf,
    pub kind: ImageKind,
    pub step: usize,
    pub event: u64,
    pub site: String,
    pub file: String,
    pub level: usize,
    pub desc: String,
}

#[derive(Clone, Debug)]
pub struct EventRec {
    pub seq: u64,
    pub step: usize,
    pub ev: u64,
    pub dir: usize,
    pub file: String,
    pub site: &'static str,
    /// w = write, a = append, l = set_len, f = fsync, d = dirsync, c = create, u = unlink
    pub kind: char,
    pub off: u64,
    pub len: u64,
    pub task: String,
    pub failed: bool,
}

struct St {
    dirs: Vec<DirTrack>,
    step: usize,
    ev_in_step: u64,
    seq: u64,
    faults: Vec<Fault>,
    persistent_fail: Option<i32>,
    images: Vec<ImageRec>,
    knobs: Knobs,
    probes: BTreeMap<String, u64>,
    fired: BTreeMap<String, u64>,
    kinds: BTreeMap<String, u64>,
    sig: u64,
    trace: Vec<EventRec>,
    keep_trace: bool,
    enabled: bool,
    img_counter: u64,
    reads: u64,
    /// number of injected errors actually delivered to a non-retryable operation, per step
    delivered_errors: Vec<(usize, String)>,
    /// level at which newly adopted dirs are registered
    adopt_level: usize,
    /// faults for nested image recovery: (level, event ordinal within that open) -> kind
    nested_plan: Vec<(u64, FaultKind)>,
    nested_ev: u64,
    nested_active: Option<usize>,
    fail_next: Option<i32>,
    /// buggify: one in `bug_rate` page reads / writes is cut short or interrupted (0 = off)
    bug_rate: u64,
    bug_rng: u64,
}

pub struct SimDisk {
    st: Mutex<St>,
    pub scratch: PathBuf,
    yield_on_events: bool,
}

fn sparse_copy(src: &Path, dst: &Path) -> std::io::Result<()> {
    let s = File::open(src)?;
    let len = s.metadata()?.len();
    let d = OpenOptions::new().create(true).write(true).truncate(true).open(dst)?;
    d.set_len(len)?;
    let fd = s.as_raw_fd();
    let mut pos: i64 = 0;
    let mut buf = vec![0u8; 1 << 16];
    while (pos as u64) < len {
        let data = unsafe { libc::lseek(fd, pos, libc::SEEK_DATA) };
        if data < 0 { break; }
        let mut hole = unsafe { libc::lseek(fd, data, libc::SEEK_HOLE) };
        if hole < 0 { hole = len as i64; }
        let mut p = data as u64;
        while p < hole as u64 {
            let n = ((hole as u64 - p) as usize).min(buf.len());
            let got = s.read_at(&mut buf[..n], p)?;
            if got == 0 { break; }
            // skip all-zero chunks to keep the copy sparse
            if buf[..got].iter().any(|b| *b != 0) { d.write_all_at(&buf[..got], p)?; }
            p += got as u64;
        }
        pos = hole;
    }
    Ok(())
}

pub fn copy_dir(src: &Path, dst: &Path) {
    let _ = fs::remove_dir_all(dst);
    fs::create_dir_all(dst).unwrap();
    let Ok(rd) = fs::read_dir(src) else { return };
    for e in rd {
        let e = e.unwrap();
        if e.file_type().unwrap().is_file() { sparse_copy(&e.path(), &dst.join(e.file_name())).unwrap(); }
    }
}

fn apply_fop(path: &Path, op: &FOp) {
    let f = OpenOptions::new().create(true).write(true).open(path).unwrap();
    match op {
        FOp::Write { off, data } | FOp::Append { off, data } => f.write_all_at(data, *off).unwrap(),
        FOp::SetLen(n) => f.set_len(*n).unwrap(),
    }
}

fn fd_path(fd: RawFd) -> Option<PathBuf> { fs::read_link(format!("/proc/self/fd/{fd}")).ok() }

fn fd_append_offset(fd: RawFd) -> u64 {
    unsafe {
        let fl = libc::fcntl(fd, libc::F_GETFL);
        if fl >= 0 && (fl & libc::O_APPEND) != 0 {
            let mut st: libc::stat = std::mem::zeroed();
            libc::fstat(fd, &mut st);
            st.st_size as u64
        } else {
            libc::lseek(fd, 0, libc::SEEK_CUR) as u64
        }
    }
}

impl SimDisk {
    pub fn new(scratch: PathBuf, faults: Vec<Fault>, knobs: Knobs, keep_trace: bool, yield_on_events: bool) -> Self {
        fs::create_dir_all(&scratch).unwrap();
        SimDisk {
            st: Mutex::new(St {
                dirs: Vec::new(), step: 0, ev_in_step: 0, seq: 0, faults, persistent_fail: None, images: Vec::new(), knobs,
                probes: BTreeMap::new(), fired: BTreeMap::new(), kinds: BTreeMap::new(), sig: 0, trace: Vec::new(), keep_trace,
                enabled: true, img_counter: 0, reads: 0, delivered_errors: Vec::new(), adopt_level: 0,
                nested_plan: Vec::new(), nested_ev: 0, nested_active: None, fail_next: None, bug_rate: 0, bug_rng: 0,
            }),
            scratch,
            yield_on_events,
        }
    }

    /// Legal-but-unusual behaviour of the page I/O calls, decided by a PRNG of the run's own
    /// (drawn in event order, which the scheduler fixes): short transfers and EINTR, which the
    /// caller must absorb by retrying.
    pub fn set_buggify(&self, rate: u64, seed: u64) { let mut st = self.st.lock().unwrap(); st.bug_rate = rate; st.bug_rng = seed | 1; }
    fn bug_draw(st: &mut St) -> Option<Verdict> {
        if st.bug_rate == 0 { return None; }
        st.bug_rng = st.bug_rng.wrapping_add(0x9E3779B97F4A7C15);
        let mut z = st.bug_rng; z = (z ^ (z >> 30)).wrapping_mul(0xBF58476D1CE4E5B9); z = (z ^ (z >> 27)).wrapping_mul(0x94D049BB133111EB); z ^= z >> 31;
        if z % st.bug_rate != 0 { return None; }
        Some(if (z >> 20) & 1 == 0 { Verdict::Short(1 + ((z >> 32) % 4095) as usize) } else { Verdict::Eintr })
    }

    /// Start tracking `dir`: everything in it now counts as durable.
    pub fn adopt(&self, dir: &Path) { let mut st = self.st.lock().unwrap(); let lvl = st.adopt_level; self.adopt_locked(&mut st, dir, lvl); }
    pub fn adopt_at_level(&self, dir: &Path, level: usize) { let mut st = self.st.lock().unwrap(); self.adopt_locked(&mut st, dir, level); }
    fn adopt_locked(&self, st: &mut St, dir: &Path, level: usize) {
        if st.dirs.iter().any(|d| d.live == dir) { return; }
        st.img_counter += 1;
        let durable = self.scratch.join(format!("dur-{}", st.img_counter));
        copy_dir(dir, &durable);
        let id = st.img_counter as usize;
        st.dirs.push(DirTrack { live: dir.to_path_buf(), durable, files: BTreeMap::new(), dirops: Vec::new(), level, id });
    }
    pub fn forget(&self, dir: &Path) {
        let mut st = self.st.lock().unwrap();
        if let Some(i) = st.dirs.iter().position(|d| d.live == dir) {
            let d = st.dirs.remove(i);
            let _ = fs::remove_dir_all(&d.durable);
        }
    }
    pub fn seq_now(&self) -> u64 { self.st.lock().unwrap().seq }
    /// The next mutating operation on a top-level directory fails with `errno` (one shot).
    pub fn arm_fail_next(&self, errno: i32) { self.st.lock().unwrap().fail_next = Some(errno); }
    pub fn begin_step(&self, step: usize) { let mut st = self.st.lock().unwrap(); st.step = step; st.ev_in_step = 0; }
    pub fn set_enabled(&self, on: bool) { self.st.lock().unwrap().enabled = on; }
    pub fn clear_persistent_fail(&self) { let mut st = self.st.lock().unwrap(); st.persistent_fail = None; st.fail_next = None; st.faults.clear(); }
    pub fn events_in_step(&self) -> u64 { self.st.lock().unwrap().ev_in_step }
    pub fn take_images(&self) -> Vec<ImageRec> { std::mem::take(&mut self.st.lock().unwrap().images) }
    pub fn delivered_errors(&self) -> Vec<(usize, String)> { self.st.lock().unwrap().delivered_errors.clone() }
    pub fn trace(&self) -> Vec<EventRec> { self.st.lock().unwrap().trace.clone() }
    pub fn trace_len(&self) -> usize { self.st.lock().unwrap().trace.len() }
    pub fn set_nested_plan(&self, level: usize, plan: Vec<(u64, FaultKind)>) {
        let mut st = self.st.lock().unwrap();
        st.nested_plan = plan; st.nested_ev = 0; st.nested_active = Some(level);
    }
    pub fn clear_nested_plan(&self) { let mut st = self.st.lock().unwrap(); st.nested_plan.clear(); st.nested_active = None; }
    pub fn nested_events(&self) -> u64 { self.st.lock().unwrap().nested_ev }

    pub fn export(&self, rep: &mut crate::exec::Report) {
        let st = self.st.lock().unwrap();
        rep.events = st.seq + st.reads;
        rep.mutating_events = st.seq;
        for (k, v) in &st.probes { *rep.probes.entry(k.clone()).or_default() += v; }
        for (k, v) in &st.fired { *rep.faults_fired.entry(k.clone()).or_default() += v; }
        for (k, v) in &st.kinds { *rep.event_kinds.entry(k.clone()).or_default() += v; }
        rep.signature ^= st.sig;
    }

    /// Sparse copy of a live directory as it is right now (a process-crash image at a quiescent
    /// point, also used for twin probes).
    pub fn fork_live_copy(&self, dir: &Path, tag: &str) -> PathBuf {
        let mut st = self.st.lock().unwrap();
        st.img_counter += 1;
        let p = self.scratch.join(format!("img-{}-{}", st.img_counter, tag));
        copy_dir(dir, &p);
        p
    }

    /// A power-loss image of `dir` at a quiescent point (between operations).
    pub fn fork_power_image_now(&self, dir: &Path, pattern: u64, tag: &str) -> Option<PathBuf> {
        let mut st = self.st.lock().unwrap();
        let di = st.dirs.iter().position(|d| d.live == dir)?;
        st.img_counter += 1;
        let p = self.scratch.join(format!("img-{}-{}", st.img_counter, tag));
        let desc = Self::build_power_image(&st.dirs[di], &p, pattern);
        *st.fired.entry("powerloss:image".into()).or_default() += 1;
        let _ = desc;
        Some(p)
    }

    /// Power-loss image at a quiescent point, queued for checking like the event-boundary ones.
    pub fn fork_power_image_rec(&self, dir: &Path, pattern: u64, step: usize, site: &str) {
        let mut st = self.st.lock().unwrap();
        let Some(di) = st.dirs.iter().position(|d| d.live == dir) else { return };
        st.img_counter += 1;
        let p = self.scratch.join(format!("img-{}", st.img_counter));
        let desc = Self::build_power_image(&st.dirs[di], &p, pattern);
        for d in desc.split(',') { if let Some(k) = d.split(':').next() { if !k.is_empty() { Self::fire(&mut st, &format!("powerloss:{k}")); } } }
        Self::fire(&mut st, &format!("powerloss:image-{site}"));
        let level = st.dirs[di].level;
        st.images.push(ImageRec { path: p, kind: ImageKind::Power, step, event: u64::MAX, site: site.to_string(), file: String::new(), level, desc });
    }

    pub fn dir_id(&self, dir: &Path) -> Option<usize> { self.st.lock().unwrap().dirs.iter().find(|d| d.live == dir).map(|d| d.id) }
    pub fn main_dir_id(&self) -> usize { self.st.lock().unwrap().dirs.iter().find(|d| d.level == 0).map(|d| d.id).unwrap_or(usize::MAX) }

    pub fn step_sites(&self) -> Vec<Vec<String>> {
        let st = self.st.lock().unwrap();
        let main = st.dirs.iter().find(|d| d.level == 0).map(|d| d.id).unwrap_or(usize::MAX);
        let mut out: Vec<Vec<String>> = Vec::new();
        for e in &st.trace {
            if e.dir != main || matches!(e.kind, 'L' | 'U') { continue; }
            while out.len() <= e.step { out.push(Vec::new()); }
            out[e.step].push(format!("{}:{}:{}", e.site, e.file, e.len));
        }
        out
    }

    /// Durable shadow + a pattern-chosen subset of unsynced operations. Returns a description.
    fn build_power_image(d: &DirTrack, out: &Path, pattern: u64) -> String {
        let mut rng = crate::rng::Rng::new(pattern);
        let mode = pattern % 6;
        let _ = fs::remove_dir_all(out);
        fs::create_dir_all(out).unwrap();
        // durable namespace
        for e in fs::read_dir(&d.durable).unwrap() {
            let e = e.unwrap();
            let name = e.file_name().into_string().unwrap();
            if name.starts_with(".pending-") { continue; }
            sparse_copy(&e.path(), &out.join(&name)).unwrap();
        }
        let mut desc = Vec::new();
        // directory operations: a prefix survives
        let keep_dirops = match mode { 0 => 0, 1 => d.dirops.len(), _ => rng.usize(d.dirops.len() + 1) };
        for (i, op) in d.dirops.iter().enumerate() {
            if i >= keep_dirops { desc.push(format!("lost-dirop:{}", match op { DirOp::Create(n, _) => format!("create {n}"), DirOp::Unlink(n) => format!("unlink {n}") })); continue; }
            match op {
                DirOp::Create(name, uid) => {
                    let pend = d.durable.join(format!(".pending-{uid}"));
                    if pend.exists() { sparse_copy(&pend, &out.join(name)).unwrap(); } else { File::create(out.join(name)).unwrap(); }
                }
                DirOp::Unlink(name) => { let _ = fs::remove_file(out.join(name)); }
            }
        }
        // per-file operations
        let total_unsynced: usize = d.files.values().map(|f| f.unsynced.len()).sum();
        let lone = if total_unsynced > 0 { rng.usize(total_unsynced) } else { 0 };
        let mut idx = 0usize;
        for (name, ft) in &d.files {
            let path = out.join(name);
            if !path.exists() { idx += ft.unsynced.len(); continue; }
            let mut size = fs::metadata(&path).unwrap().len();
            let mut cut = false; // a size-changing operation was lost: later ones are lost too
            for op in &ft.unsynced {
                let coin = match mode {
                    0 => false,                 // everything unsynced is lost
                    1 => true,                  // nothing is lost
                    2 => rng.chance(1, 2),
                    3 => idx != lone,           // exactly one lost
                    4 => idx == lone,           // exactly one kept
                    _ => rng.chance(3, 4),
                };
                idx += 1;
                match op {
                    FOp::Write { off, data } => {
                        let end = off + data.len() as u64;
                        if end <= size {
                            if coin { apply_fop(&path, op); } else { desc.push(format!("lost-write:{name}@{}", off / PAGE)); }
                        } else if !cut && coin {
                            apply_fop(&path, op); size = end;
                        } else { cut = true; desc.push(format!("lost-extending-write:{name}@{}", off / PAGE)); }
                    }
                    FOp::Append { off, data } => {
                        if cut || *off > size { cut = true; desc.push(format!("lost-append:{name}")); continue; }
                        let npages = (data.len() as u64 + PAGE - 1) / PAGE;
                        let keep_pages = if coin { npages } else { rng.below(npages + 1).min(npages) };
                        let keep_bytes = (keep_pages * PAGE).min(data.len() as u64) as usize;
                        if keep_bytes > 0 { apply_fop(&path, &FOp::Write { off: *off, data: data[..keep_bytes].to_vec() }); size = size.max(off + keep_bytes as u64); }
                        if keep_bytes < data.len() { cut = true; desc.push(format!("append-prefix:{name}:{keep_pages}/{npages}")); }
                    }
                    FOp::SetLen(n) => {
                        if !cut && coin { apply_fop(&path, op); size = *n; } else { cut = true; desc.push(format!("lost-setlen:{name}:{n}")); }
                    }
                }
            }
        }
        desc.join(",")
    }

    fn resolve(st: &St, fd: RawFd, op: &Op<'_>) -> Option<(usize, String)> {
        let path = match op {
            Op::Create(p) | Op::Unlink(p) | Op::Lock(p) => p.to_path_buf(),
            _ => fd_path(fd)?,
        };
        for (i, d) in st.dirs.iter().enumerate() {
            if path == d.live { return Some((i, String::new())); }
            if path.parent() == Some(d.live.as_path()) { return Some((i, path.file_name()?.to_str()?.to_string())); }
        }
        None
    }

    fn fire(st: &mut St, what: &str) { *st.fired.entry(what.to_string()).or_default() += 1; }

    fn process_image(&self, st: &mut St, di: usize, kind: ImageKind, site: &str, file: &str, torn: Option<(&str, u64, &[u8])>, desc: String) {
        st.img_counter += 1;
        let p = self.scratch.join(format!("img-{}", st.img_counter));
        copy_dir(&st.dirs[di].live, &p);
        if let Some((fname, off, data)) = torn { apply_fop(&p.join(fname), &FOp::Write { off, data: data.to_vec() }); }
        let (step, event, level) = (st.step, st.ev_in_step, st.dirs[di].level);
        st.images.push(ImageRec { path: p, kind, step, event, site: site.to_string(), file: file.to_string(), level, desc });
    }
}

impl Observer for SimDisk {
    fn event(&self, fd: RawFd, op: &Op<'_>, site: &'static str) -> Verdict {
        if self.yield_on_events && !matches!(op, Op::Read { .. }) {
            // I/O boundaries are scheduling points: other tasks may run between two system calls.
            // A plain switch, not `yield_now`: a yield makes the PCT scheduler drop the caller to the
            // lowest priority, so a task doing I/O could never stay ahead of the background tasks
            // and PCT could not starve one of them past the end of a commit.
            simrt::shuttle::thread::sleep(std::time::Duration::ZERO);
        }
        let mut stall = 0u32;
        let verdict = {
            let mut guard = self.st.lock().unwrap();
            let st = &mut *guard;
            if !st.enabled { return Verdict::Proceed; }
            let Some((di, fname)) = Self::resolve(st, fd, op) else { return Verdict::Proceed };
            *st.kinds.entry(site.to_string()).or_default() += 1;
            if let Op::Read { .. } = op {
                st.reads += 1;
                if site == "pool.read" && st.dirs[di].level == 0 { if let Some(v) = Self::bug_draw(st) { Self::fire(st, if matches!(v, Verdict::Eintr) { "eintr:page-read" } else { "short:page-read" }); return v; } }
                return Verdict::Proceed;
            }
            if matches!(op, Op::Lock(_) | Op::Unlock) {
                let task = simrt::shuttle::thread::current().name().unwrap_or("main").to_string();
                if st.keep_trace { let (seq, step, ev) = (st.seq, st.step, st.ev_in_step); st.trace.push(EventRec { seq, step, ev, dir: st.dirs[di].id, file: fname, site, kind: if matches!(op, Op::Unlock) { 'U' } else { 'L' }, off: 0, len: 0, task, failed: false }); }
                return Verdict::Proceed;
            }
            let level = st.dirs[di].level;
            let ev = st.ev_in_step;
            let mut verdict = Verdict::Proceed;
            // --- fault plan (top-level directories only) ---
            if level == 0 {
                let step = st.step;
                let matching: Vec<FaultKind> = st.faults.iter().filter(|f| f.step == step && f.event == ev).map(|f| f.kind.clone()).collect();
                for k in matching {
                    match k {
                        FaultKind::CrashImage => { Self::fire(st, "crash@boundary"); self.process_image(st, di, ImageKind::Process, site, &fname, None, String::new()); }
                        FaultKind::TornImage { pages } => {
                            if let Op::Append { data } = op {
                                let npages = (data.len() as u64 + PAGE - 1) / PAGE;
                                if npages >= 2 {
                                    let keep = (1 + (pages as u64 % (npages - 1))) * PAGE;
                                    let off = fd_append_offset(fd);
                                    Self::fire(st, "crash@torn-write");
                                    self.process_image(st, di, ImageKind::Torn, site, &fname, Some((&fname, off, &data[..keep as usize])), format!("torn {}/{} pages", keep / PAGE, npages));
                                } else { Self::fire(st, "crash@boundary"); self.process_image(st, di, ImageKind::Process, site, &fname, None, String::new()); }
                            } else { Self::fire(st, "crash@boundary"); self.process_image(st, di, ImageKind::Process, site, &fname, None, String::new()); }
                        }
                        FaultKind::PowerImage { pattern } => {
                            st.img_counter += 1;
                            let p = self.scratch.join(format!("img-{}", st.img_counter));
                            let desc = Self::build_power_image(&st.dirs[di], &p, pattern);
                            for d in desc.split(',') { if let Some(k) = d.split(':').next() { if !k.is_empty() { Self::fire(st, &format!("powerloss:{k}")); } } }
                            Self::fire(st, "powerloss:image");
                            let (step, event) = (st.step, st.ev_in_step);
                            st.images.push(ImageRec { path: p, kind: ImageKind::Power, step, event, site: site.to_string(), file: fname.clone(), level, desc });
                        }
                        FaultKind::Fail { errno, persistent } => {
                            verdict = Verdict::Fail(errno);
                            if persistent { st.persistent_fail = Some(errno); }
                        }
                        FaultKind::Short { bytes } => { if site == "pool.write" { verdict = Verdict::Short((bytes as usize).clamp(1, 4095)); Self::fire(st, "short:page-io"); } }
                        FaultKind::Eintr => { if site == "pool.write" { verdict = Verdict::Eintr; Self::fire(st, "eintr:page-io"); } }
                        FaultKind::Stall { steps } => { stall = steps; Self::fire(st, "stall:n-steps"); }
                    }
                }
                if verdict == Verdict::Proceed && site == "pool.write" { if let Some(v) = Self::bug_draw(st) { Self::fire(st, if matches!(v, Verdict::Eintr) { "eintr:page-io" } else { "short:page-io" }); verdict = v; } }
                if verdict == Verdict::Proceed { if let Some(e) = st.persistent_fail { verdict = Verdict::Fail(e); } }
                if verdict == Verdict::Proceed { if let Some(e) = st.fail_next.take() { verdict = Verdict::Fail(e); } }
            } else if st.nested_active == Some(level) {
                let nev = st.nested_ev;
                let matching: Vec<FaultKind> = st.nested_plan.iter().filter(|(e, _)| *e == nev).map(|(_, k)| k.clone()).collect();
                for k in matching {
                    match k {
                        FaultKind::CrashImage | FaultKind::TornImage { .. } => { Self::fire(st, "crash@nested"); self.process_image(st, di, ImageKind::Process, site, &fname, None, format!("nested level {level}")); }
                        FaultKind::PowerImage { pattern } => {
                            st.img_counter += 1;
                            let p = self.scratch.join(format!("img-{}", st.img_counter));
                            let desc = Self::build_power_image(&st.dirs[di], &p, pattern);
                            Self::fire(st, "powerloss:nested");
                            let (step, event) = (st.step, st.ev_in_step);
                            st.images.push(ImageRec { path: p, kind: ImageKind::Power, step, event, site: site.to_string(), file: fname.clone(), level, desc });
                        }
                        _ => {}
                    }
                }
                st.nested_ev += 1;
            }
            // --- bookkeeping ---
            let failed = matches!(verdict, Verdict::Fail(_));
            let (kind, off, len) = match op {
                Op::Write { off, data } => ('w', *off, data.len() as u64),
                Op::Append { data } => ('a', fd_append_offset(fd), data.len() as u64),
                Op::SetLen(n) => ('l', *n, 0),
                Op::Fsync => ('f', 0, 0),
                Op::DirSync => ('d', 0, 0),
                Op::Create(_) => ('c', 0, 0),
                Op::Unlink(_) => ('u', 0, 0),
                _ => ('?', 0, 0),
            };
            if failed {
                let what = match kind { 'w' => "eio:write", 'a' => "enospc:append", 'l' => "enospc:set_len", 'f' | 'd' => "eio:fsync", 'u' => "eio:unlink", 'c' => "eio:create", _ => "eio:other" };
                Self::fire(st, what);
                let step = st.step;
                st.delivered_errors.push((step, format!("{site}:{fname}")));
            }
            st.sig = crate::rng::mix(st.sig ^ crate::rng::mix(fold(site) ^ fold(&fname).rotate_left(17) ^ (kind as u64) << 56));
            if st.keep_trace {
                let task = simrt::shuttle::thread::current().name().unwrap_or("main").to_string();
                let (seq, step) = (st.seq, st.step);
                let did = st.dirs[di].id;
                st.trace.push(EventRec { seq, step, ev, dir: did, file: fname.clone(), site, kind, off, len, task, failed });
            }
            st.seq += 1;
            st.ev_in_step += 1;
            if !failed {
                let d = &mut st.dirs[di];
                match op {
                    Op::Write { off, data } => {
                        let data = match verdict { Verdict::Short(n) => &data[..n], Verdict::Eintr => &data[..0], _ => &data[..] };
                        if !data.is_empty() { d.files.entry(fname).or_default().unsynced.push(FOp::Write { off: *off, data: data.to_vec() }); }
                    }
                    Op::Append { data } => d.files.entry(fname).or_default().unsynced.push(FOp::Append { off, data: data.to_vec() }),
                    Op::SetLen(n) => d.files.entry(fname).or_default().unsynced.push(FOp::SetLen(*n)),
                    Op::Fsync => {
                        let pending = d.dirops.iter().rev().find_map(|o| match o { DirOp::Create(n, uid) if *n == fname => Some(*uid), _ => None });
                        let target = match pending { Some(uid) => d.durable.join(format!(".pending-{uid}")), None => d.durable.join(&fname) };
                        if let Some(ft) = d.files.get_mut(&fname) { for o in ft.unsynced.drain(..) { apply_fop(&target, &o); } }
                        else if pending.is_some() && !target.exists() { File::create(&target).unwrap(); }
                    }
                    Op::DirSync => {
                        for o in d.dirops.drain(..) {
                            match o {
                                DirOp::Create(n, uid) => {
                                    let pend = d.durable.join(format!(".pending-{uid}"));
                                    let _ = fs::remove_file(d.durable.join(&n));
                                    if pend.exists() { fs::rename(&pend, d.durable.join(&n)).unwrap(); } else { File::create(d.durable.join(&n)).unwrap(); }
                                }
                                DirOp::Unlink(n) => { let _ = fs::remove_file(d.durable.join(&n)); }
                            }
                        }
                    }
                    Op::Create(_) => { let uid = st.seq; d.dirops.push(DirOp::Create(fname, uid)); }
                    Op::Unlink(_) => { d.files.remove(&fname); d.dirops.push(DirOp::Unlink(fname)); }
                    _ => {}
                }
            }
            verdict
        };
        for _ in 0..stall { simrt::shuttle::thread::yield_now(); }
        verdict
    }

    fn knob(&self, name: &str) -> Option<u64> {
        let st = self.st.lock().unwrap();
        match name { "seglog.max_segment_size" => st.knobs.seg_max_size, "store.grow_pages" => st.knobs.grow_pages, _ => None }
    }

    fn probe(&self, name: &'static str) { *self.st.lock().unwrap().probes.entry(name.to_string()).or_default() += 1; }
}

fn fold(s: &str) -> u64 { let mut h = 0xcbf29ce484222325u64; for b in s.bytes() { h = (h ^ b as u64).wrapping_mul(0x100000001b3); } h }
