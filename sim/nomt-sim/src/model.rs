//! M — the sequential model, and T — the reference trie. Neither shares code with the store:
//! T uses only the hasher's `hash_value` / `hash_leaf` / `hash_internal`.
use crate::scenario::{value_bytes, Key, VSpec};
use nomt_core::hasher::{NodeHasher, ValueHasher};
use nomt_core::trie::{InternalData, LeafData, Node, TERMINATOR};
use std::collections::{BTreeMap, HashMap};

pub type State = BTreeMap<Key, VSpec>;

#[derive(Default)]
pub struct HashCache(HashMap<(Key, VSpec), [u8; 32]>);
impl HashCache {
    pub fn vh<H: ValueHasher>(&mut self, k: &Key, v: VSpec) -> [u8; 32] {
        *self.0.entry((*k, v)).or_insert_with(|| H::hash_value(&value_bytes(k, v)))
    }
}

pub fn bit(k: &Key, i: usize) -> bool { (k[i / 8] >> (7 - (i % 8))) & 1 == 1 }

pub enum RNode {
    Term,
    Leaf { key: Key, vh: [u8; 32], hash: Node },
    Int { hash: Node, l: Box<RNode>, r: Box<RNode>, leaves: usize },
}
impl RNode {
    pub fn hash(&self) -> Node {
        match self { RNode::Term => TERMINATOR, RNode::Leaf { hash, .. } => *hash, RNode::Int { hash, .. } => *hash }
    }
    pub fn leaves(&self) -> usize {
        match self { RNode::Term => 0, RNode::Leaf { .. } => 1, RNode::Int { leaves, .. } => *leaves }
    }
}

/// The specified binary Merkle-Patricia trie, built from scratch over sorted `(key, value_hash)`.
pub fn build<H: NodeHasher>(pairs: &[(Key, [u8; 32])], depth: usize) -> RNode {
    match pairs.len() {
        0 => RNode::Term,
        1 => {
            let (key, vh) = pairs[0];
            RNode::Leaf { key, vh, hash: H::hash_leaf(&LeafData { key_path: key, value_hash: vh }) }
        }
        n => {
            // sorted ⇒ all keys with bit `depth` = 0 come first
            let split = pairs.partition_point(|(k, _)| !bit(k, depth));
            let l = build::<H>(&pairs[..split], depth + 1);
            let r = build::<H>(&pairs[split..], depth + 1);
            let hash = H::hash_internal(&InternalData { left: l.hash(), right: r.hash() });
            RNode::Int { hash, l: Box::new(l), r: Box::new(r), leaves: n }
        }
    }
}

pub fn ref_trie<H: NodeHasher + ValueHasher>(state: &State, hc: &mut HashCache) -> RNode {
    let pairs: Vec<(Key, [u8; 32])> = state.iter().map(|(k, v)| (*k, hc.vh::<H>(k, *v))).collect();
    build::<H>(&pairs, 0)
}

#[derive(Debug, Clone, PartialEq)]
pub enum RefTerminal { Leaf { key: Key, vh: [u8; 32] }, Terminator { depth: usize } }

/// What a truthful path proof for `key` must look like: terminal and siblings (root-to-terminal order).
pub fn ref_proof(root: &RNode, key: &Key) -> (RefTerminal, Vec<Node>) {
    let mut sibs = Vec::new();
    let mut cur = root;
    let mut depth = 0;
    loop {
        match cur {
            RNode::Term => return (RefTerminal::Terminator { depth }, sibs),
            RNode::Leaf { key, vh, .. } => return (RefTerminal::Leaf { key: *key, vh: *vh }, sibs),
            RNode::Int { l, r, .. } => {
                if bit(key, depth) { sibs.push(l.hash()); cur = r; } else { sibs.push(r.hash()); cur = l; }
                depth += 1;
            }
        }
    }
}

/// Node at a trie position given as the first `depth` bits of `path` (None if the position lies
/// strictly below a terminal, i.e. does not exist in the trie).
pub fn node_at<'a>(root: &'a RNode, path: &Key, depth: usize) -> Option<&'a RNode> {
    let mut cur = root;
    for d in 0..depth {
        match cur {
            RNode::Int { l, r, .. } => cur = if bit(path, d) { r } else { l },
            _ => return None,
        }
    }
    Some(cur)
}

/// M: current state, every past state (one per successful commit-like operation), and how many
/// reverse deltas the store is obliged to retain.
pub struct Model {
    pub cur: State,
    pub history: Vec<State>,
    pub retained: usize,
    pub seqn: u32,
    pub rollback_enabled: bool,
    pub max_log: usize,
    /// Every key ever touched (for read-back of deleted keys).
    pub touched: std::collections::BTreeSet<Key>,
}
impl Model {
    pub fn new(rollback_enabled: bool, max_log: usize) -> Self {
        Model { cur: State::new(), history: Vec::new(), retained: 0, seqn: 0, rollback_enabled, max_log, touched: Default::default() }
    }
    /// Apply a committed write set (as one commit that records a rollback delta).
    pub fn commit(&mut self, writes: &[(Key, Option<VSpec>)]) {
        self.history.push(self.cur.clone());
        for (k, v) in writes {
            self.touched.insert(*k);
            match v { Some(v) => { self.cur.insert(*k, *v); } None => { self.cur.remove(k); } }
        }
        self.seqn += 1;
        if self.rollback_enabled { self.retained = (self.retained + 1).min(self.max_log); }
    }
    /// State `n` commits back, if the model knows it.
    pub fn back(&self, n: usize) -> Option<&State> {
        if n == 0 { return Some(&self.cur); }
        if n > self.history.len() { return None; }
        Some(&self.history[self.history.len() - n])
    }
    pub fn rollback(&mut self, n: usize) {
        let st = self.back(n).unwrap().clone();
        let keep = self.history.len() - n;
        self.history.truncate(keep);
        self.cur = st;
        self.seqn += 1;
        self.retained -= n.min(self.retained);
    }
}

/// Two model states hold the same key-value set. A value shorter than four bytes cannot carry its
/// whole stamp, so two writes with different stamps can be byte-identical (an empty value always
/// is): states are compared by the bytes they stand for, not by the specs that produced them.
pub fn same_state(a: &State, b: &State) -> bool {
    a.len() == b.len() && a.iter().zip(b.iter()).all(|((ka, va), (kb, vb))| ka == kb && va.len == vb.len && (va.stamp == vb.stamp || (va.len < 4 && crate::scenario::value_bytes(ka, *va) == crate::scenario::value_bytes(kb, *vb))))
}
