//! One integer decides everything: SplitMix64 streams derived from the run seed.
#[derive(Clone, Debug)]
pub struct Rng(u64);

pub fn mix(mut z: u64) -> u64 {
    z = z.wrapping_add(0x9E3779B97F4A7C15);
    z = (z ^ (z >> 30)).wrapping_mul(0xBF58476D1CE4E5B9);
    z = (z ^ (z >> 27)).wrapping_mul(0x94D049BB133111EB);
    z ^ (z >> 31)
}

impl Rng {
    pub fn new(seed: u64) -> Self { Rng(mix(seed ^ 0x5EED_5EED_5EED_5EED)) }
    /// Independent child stream.
    pub fn fork(&mut self, tag: u64) -> Rng { Rng(mix(self.next() ^ mix(tag))) }
    pub fn next(&mut self) -> u64 {
        self.0 = self.0.wrapping_add(0x9E3779B97F4A7C15);
        let mut z = self.0;
        z = (z ^ (z >> 30)).wrapping_mul(0xBF58476D1CE4E5B9);
        z = (z ^ (z >> 27)).wrapping_mul(0x94D049BB133111EB);
        z ^ (z >> 31)
    }
    pub fn below(&mut self, n: u64) -> u64 { if n == 0 { 0 } else { self.next() % n } }
    pub fn range(&mut self, lo: u64, hi_incl: u64) -> u64 { lo + self.below(hi_incl - lo + 1) }
    pub fn usize(&mut self, n: usize) -> usize { self.below(n as u64) as usize }
    pub fn chance(&mut self, num: u64, den: u64) -> bool { self.below(den) < num }
    pub fn pick<'a, T>(&mut self, xs: &'a [T]) -> &'a T { &xs[self.usize(xs.len())] }
    pub fn bytes32(&mut self) -> [u8; 32] {
        let mut k = [0u8; 32];
        for c in k.chunks_mut(8) { c.copy_from_slice(&self.next().to_le_bytes()); }
        k
    }
    pub fn shuffle<T>(&mut self, xs: &mut [T]) {
        for i in (1..xs.len()).rev() { let j = self.usize(i + 1); xs.swap(i, j); }
    }
}
