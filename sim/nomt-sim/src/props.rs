//! Per-property scenario construction and budgets.
use crate::gen::*;
use crate::rng::Rng;
use crate::scenario::*;

pub fn runs(prop: &str, tier: Tier) -> u64 {
    let (q, t) = match prop {
        "C01" | "C02" | "C05" => (400, 8000),
        "C06" | "C07" => (500, 10000),
        _ => (300, 5000),
    };
    match tier { Tier::Quick => q, Tier::Thorough => t }
}

pub fn make(prop: &str, tier: Tier, seed: u64) -> Scenario {
    let mut r = Rng::new(seed ^ 0xA5A5);
    let _ = tier;
    match prop {
        "C01" | "C02" | "C05" => {
            let mut p = Profile::default();
            if r.chance(1, 6) { p.pool = (200, 900); p.batch = (50, 400); p.steps = (2, 5); p.big_pct = 4; p.session_proves = 6; }
            p.w_overlay = 6; p.w_rollback = 4;
            let mut c = checks_all();
            c.witness = false; c.multiproof = false;
            gen_history(prop, seed, p, c)
        }
        "C06" | "C07" => {
            let mut p = Profile::default();
            p.witness_pct = 100; p.w_overlay = 4; p.w_rollback = 2; p.w_reopen = 4; p.big_pct = 5;
            if r.chance(1, 4) { p.pool = (100, 500); p.batch = (30, 300); p.steps = (2, 4); }
            let mut c = checks_all();
            c.multiproof = prop == "C07";
            gen_history(prop, seed, p, c)
        }
        _ => gen_history(prop, seed, Profile::default(), checks_all()),
    }
}
