//! Per-property scenario construction and budgets.
use crate::gen::*;
use crate::rng::Rng;
use crate::scenario::*;
use serde_json::json;

pub fn runs(prop: &str, tier: Tier) -> u64 {
    let (q, t) = match prop {
        "C01" | "C02" | "C05" => (2000, 30000),
        "C06" | "C07" => (3000, 36000),
        "C09" | "C10" | "C11" | "C12" => (2500, 30000),
        "C13" => (2400, 32000),
        "C15" => (30000, 600000),
        "C20" => (20000, 400000),
        "C03" => (500, 5000),
        "C04" => (350, 4000),
        "C14" => (250, 2500),
        _ => (1500, 20000),
    };
    match tier { Tier::Quick => q, Tier::Thorough => t }
}

fn big(r: &mut Rng, p: &mut Profile, tier: Tier) {
    // occasionally a large pool: leaf / branch splits, merges, multi-page free lists
    let odds = if tier == Tier::Thorough { 5 } else { 8 };
    if r.chance(1, odds) { p.pool = (300, 1500); p.batch = (100, 700); p.steps = (2, 6); p.big_pct = 3; p.session_proves = 6; if r.chance(1, 2) { p.fat_pct = 75; p.batch = (300, 900); } }
    if tier == Tier::Thorough && r.chance(1, 60) { p.pool = (3000, 6000); p.batch = (1500, 4000); p.steps = (3, 7); p.big_pct = 1; }
}

/// A history built around the page-elision threshold: a dense cluster under one page-aligned (or
/// nearly aligned) prefix is committed up to 15..19 leaves (its page stays elided), then grown past
/// 20 by a commit that touches only part of the page (the page is promoted to a stored page), then
/// touched in its other half, then shrunk again.
fn threshold_history(s: &mut Scenario, r: &mut Rng) {
    let base = r.bytes32();
    let plen = *r.pick(&[12usize, 12, 13, 18, 18, 19, 24, 30, 36]);
    let mut keys: Vec<Key> = Vec::new();
    while keys.len() < 30 { let mut k = r.bytes32(); for i in 0..plen { set_bit(&mut k, i, get_bit(&base, i)); } if !keys.contains(&k) { keys.push(k); } }
    // split the cluster by the next bit so that later commits can stay within one half of the page
    keys.sort();
    let (lo, hi): (Vec<Key>, Vec<Key>) = keys.iter().partition(|k| !get_bit(k, plen));
    let mut stamp = 500_000u32;
    let mut w = |ks: &[Key], r: &mut Rng| -> Batch { let mut items: Vec<(K, Act)> = ks.iter().map(|k| { stamp += 1; (K(*k), Act::Write(Some(VSpec { len: *r.pick(&[4u32, 40, 300, 1400]), stamp }))) }).collect(); items.sort_by(|a, b| a.0.cmp(&b.0)); Batch { items, ..Default::default() } };
    let others: Vec<Key> = (0..r.range(2, 8)).map(|_| r.bytes32()).collect();
    let n_first = r.range(15, 19) as usize;
    let mut first: Vec<Key> = Vec::new();
    // mostly from the low half, so that the growth commit can stay in the high half (or vice versa)
    let (a, b) = if r.chance(1, 2) { (&lo, &hi) } else { (&hi, &lo) };
    first.extend(a.iter().cloned());
    for k in b.iter() { if first.len() < n_first { first.push(*k); } }
    first.truncate(n_first);
    let rest: Vec<Key> = keys.iter().filter(|k| !first.contains(k)).cloned().collect();
    let mut steps = Vec::new();
    let mut f = first.clone(); f.extend(others.iter().cloned());
    steps.push(Step::Commit { batch: w(&f, r), nonblocking: false });
    if r.chance(1, 2) { steps.push(Step::Reopen { opts: regen_opts(r, &s.opts, true) }); }
    let grow = r.range(2, rest.len().min(8) as u64) as usize;
    steps.push(Step::Commit { batch: w(&rest[..grow.max(21usize.saturating_sub(n_first)).min(rest.len())], r), nonblocking: false });
    // touch the other half of the promoted page
    let touch: Vec<Key> = first.iter().take(r.range(1, 3) as usize).cloned().collect();
    steps.push(Step::Commit { batch: w(&touch, r), nonblocking: false });
    if r.chance(1, 2) {
        let del: Vec<(K, Act)> = { let mut v: Vec<(K, Act)> = keys.iter().take(r.range(8, 20) as usize).map(|k| (K(*k), Act::Write(None))).collect(); v.sort_by(|a, b| a.0.cmp(&b.0)); v };
        steps.push(Step::Commit { batch: Batch { items: del, ..Default::default() }, nonblocking: false });
    }
    s.steps = steps;
    s.probes = keys.iter().take(4).map(|k| { let mut p = *k; set_bit(&mut p, 255, !get_bit(k, 255)); K(p) }).collect();
}

/// An overlay chain in which ancestors delete keys that descendants write again (and vice versa),
/// committed in order and then rolled back one commit at a time.
fn overlay_chain_history(s: &mut Scenario, r: &mut Rng) {
    let pn = r.range(4, 14) as usize;
    let pool = gen_pool(r, pn);
    let mut stamp = 700_000u32;
    let mut val = |r: &mut Rng| { stamp += 1; VSpec { len: gen_len(r, 10), stamp } };
    let mut sorted = |mut v: Vec<(K, Act)>| { v.sort_by(|a, b| a.0.cmp(&b.0)); v.dedup_by(|a, b| a.0 == b.0); v };
    let mut steps = Vec::new();
    let mut base: Vec<(K, Act)> = Vec::new();
    for k in &pool { if r.chance(3, 4) { base.push((K(*k), Act::Write(Some(val(r))))); } }
    if base.is_empty() { base.push((K(pool[0]), Act::Write(Some(val(r))))); }
    steps.push(Step::Commit { batch: Batch { items: sorted(base.clone()), ..Default::default() }, nonblocking: false });
    let mut present: std::collections::BTreeSet<Key> = base.iter().map(|x| x.0 .0).collect();
    let depth = r.range(2, 4) as usize;
    let mut parent: Option<usize> = None;
    for id in 0..depth {
        let mut items = Vec::new();
        for k in &pool {
            if !r.chance(1, 2) { continue; }
            if present.contains(k) { if r.chance(1, 2) { items.push((K(*k), Act::Write(None))); present.remove(k); } else { items.push((K(*k), if r.chance(1, 4) { Act::Rtw(Some(val(r))) } else { Act::Write(Some(val(r))) })); } }
            else { items.push((K(*k), Act::Write(Some(val(r))))); present.insert(*k); }
        }
        if items.is_empty() { items.push((K(pool[0]), Act::Write(Some(val(r))))); present.insert(pool[0]); }
        let mut b = Batch { items: sorted(items), ..Default::default() };
        for k in &pool { if r.chance(1, 3) { b.preserve.push(K(*k)); } }
        steps.push(Step::OvBuild { id, parent, batch: b });
        parent = Some(id);
    }
    for id in 0..depth { steps.push(Step::OvCommit { id, nonblocking: r.chance(1, 3) }); if r.chance(1, 6) { steps.push(Step::Reopen { opts: regen_opts(r, &s.opts, true) }); break; } }
    for _ in 0..r.range(1, depth as u64 + 1) { steps.push(Step::Rollback { n: 1 }); }
    s.steps = steps;
    s.opts.rollback = true;
    s.opts.max_rollback_log_len = s.opts.max_rollback_log_len.max(5);
    s.probes.clear();
}

/// A stored merkle page (>= 20 leaves under one prefix) that an overlay empties or shrinks, a
/// descendant overlay re-populates below / at / above the elision threshold, and a third changes
/// again; every overlay session proves keys inside the page; then the chain is committed in order.
fn overlay_threshold_history(s: &mut Scenario, r: &mut Rng) {
    let base = r.bytes32();
    let plen = *r.pick(&[12usize, 12, 13, 18, 18, 19, 24, 30]);
    let mut keys: Vec<Key> = Vec::new();
    while keys.len() < 34 { let mut k = r.bytes32(); for i in 0..plen { set_bit(&mut k, i, get_bit(&base, i)); } if !keys.contains(&k) { keys.push(k); } }
    let mut stamp = 1_200_000u32;
    let mut mk = |ks: &[(Key, bool)], proves: &[Key], r: &mut Rng| -> Batch {
        let mut items: Vec<(K, Act)> = ks.iter().map(|(k, del)| { stamp += 1; (K(*k), if *del { Act::Write(None) } else { Act::Write(Some(VSpec { len: *r.pick(&[4u32, 40, 300, 1400]), stamp })) }) }).collect();
        items.sort_by(|a, b| a.0.cmp(&b.0)); items.dedup_by(|a, b| a.0 == b.0);
        Batch { items, proves: proves.iter().map(|k| K(*k)).collect(), reads: proves.iter().take(3).map(|k| K(*k)).collect(), ..Default::default() }
    };
    let flip = |k: &Key, bit: usize| { let mut p = *k; set_bit(&mut p, bit, !get_bit(k, bit)); p };
    let others: Vec<Key> = (0..r.range(2, 8)).map(|_| r.bytes32()).collect();
    r.shuffle(&mut keys);
    let n_first = r.range(20, 28) as usize;
    let first: Vec<Key> = keys[..n_first].to_vec();
    let mut pv: Vec<Key> = keys.iter().take(3).cloned().collect();
    pv.extend(keys.iter().rev().take(3).cloned());
    pv.push(flip(&keys[0], 255)); pv.push(flip(&keys[1], plen + 7)); pv.push(flip(&keys[2], plen + 1));
    let mut steps = Vec::new();
    // half of the time the other way round: the page is first *created* inside overlay A (a fresh
    // page whose bucket is only a placeholder shared with its descendants) and emptied by B
    let create_in_overlay = r.chance(1, 2);
    let mut f: Vec<(Key, bool)> = if create_in_overlay { first.iter().take(*r.pick(&[0usize, 0, 3, 12])).map(|k| (*k, false)).collect() } else { first.iter().map(|k| (*k, false)).collect() };
    f.extend(others.iter().map(|k| (*k, false)));
    steps.push(Step::Commit { batch: mk(&f, &[], r), nonblocking: false });
    if r.chance(1, 3) { steps.push(Step::Reopen { opts: regen_opts(r, &s.opts, true) }); }
    // A: empty (or nearly empty) the page / create it
    let keep = *r.pick(&[0usize, 0, 0, 1, 2, 5, 19]);
    let a: Vec<(Key, bool)> = if create_in_overlay { first.iter().map(|k| (*k, false)).collect() } else { first.iter().skip(keep).map(|k| (*k, true)).collect() };
    steps.push(Step::OvBuild { id: 0, parent: None, batch: mk(&a, &pv, r) });
    if create_in_overlay {
        // B: delete what A created (all of it, or down to below the threshold); C: some of it again
        let b: Vec<(Key, bool)> = first.iter().skip(keep).map(|k| (*k, true)).collect();
        steps.push(Step::OvBuild { id: 1, parent: Some(0), batch: mk(&b, &pv, r) });
        let mut depth = 2;
        if r.chance(1, 2) { let c: Vec<(Key, bool)> = keys.iter().rev().take(r.range(1, 24) as usize).map(|k| (*k, false)).collect(); steps.push(Step::OvBuild { id: 2, parent: Some(1), batch: mk(&c, &pv, r) }); depth = 3; }
        for id in 0..depth { steps.push(Step::OvCommit { id, nonblocking: r.chance(1, 3) }); }
        if r.chance(1, 2) { steps.push(Step::Reopen { opts: regen_opts(r, &s.opts, true) }); }
        if r.chance(1, 2) { steps.push(Step::Commit { batch: mk(&keys.iter().take(6).map(|k| (*k, false)).collect::<Vec<_>>(), &pv, r), nonblocking: false }); }
        s.steps = steps;
        s.probes = pv.iter().map(|k| K(*k)).collect();
        return;
    }
    // B: re-populate below / at / above the threshold (keys old and new)
    let m = *r.pick(&[2usize, 3, 4, 8, 15, 19, 20, 22]);
    let mut pick_from = keys.clone(); r.shuffle(&mut pick_from);
    let b: Vec<(Key, bool)> = pick_from.iter().take(m).map(|k| (*k, false)).collect();
    steps.push(Step::OvBuild { id: 1, parent: Some(0), batch: mk(&b, &pv, r) });
    let mut depth = 2;
    if r.chance(2, 3) {
        let c: Vec<(Key, bool)> = if r.chance(1, 2) { pick_from.iter().skip(m).take(r.range(1, 24) as usize).map(|k| (*k, false)).collect() } else { pick_from.iter().take(r.range(1, m as u64) as usize).map(|k| (*k, true)).collect() };
        steps.push(Step::OvBuild { id: 2, parent: Some(1), batch: mk(&c, &pv, r) });
        depth = 3;
    }
    for id in 0..depth { steps.push(Step::OvCommit { id, nonblocking: r.chance(1, 3) }); if r.chance(1, 8) { steps.push(Step::Reopen { opts: regen_opts(r, &s.opts, true) }); break; } }
    if r.chance(1, 3) { steps.push(Step::Commit { batch: mk(&keys.iter().take(6).map(|k| (*k, false)).collect::<Vec<_>>(), &pv, r), nonblocking: false }); }
    s.steps = steps;
    s.probes = pv.iter().map(|k| K(*k)).collect();
}

/// Many beatree workers over few leaves with merges that cascade across worker boundaries: a
/// family of neighbouring keys with large in-leaf values (about three per leaf), then a commit
/// that shrinks / deletes many of them and inserts small values in between, run with 8..64 commit
/// workers (the extend-range protocol hands leaves from worker to worker several times).
fn merge_cascade_history(s: &mut Scenario, r: &mut Rng) {
    let base = r.bytes32();
    let cc = *r.pick(&[8usize, 16, 32, 64, 64]);
    // about one to two and a half operations per worker in the second commit: a few workers
    // owning one leaf each at the left end and one owning the rest, or an even spread
    let slots = (cc as u64 * r.range(10, 25) / 10).max(12);
    let stride = r.range(1, 3);
    let fam = |i: u64| -> Key { let mut k = base; for b in k.iter_mut().skip(20) { *b = 0; } k[24..32].copy_from_slice(&(0x100 + i * stride * 4 + 3).to_be_bytes()); k };
    let mut stamp = 1_500_000u32;
    let mut steps = Vec::new();
    // anchors: large values, two or three per leaf, at irregular distances
    let mut anchors: Vec<u64> = Vec::new();
    let mut i = 0u64;
    while i < slots { anchors.push(i); i += r.range(1, 12); }
    let first: Vec<(K, Act)> = anchors.iter().map(|i| { stamp += 1; (K(fam(*i)), Act::Write(Some(VSpec { len: *r.pick(&[1331u32, 1331, 1332, 1332, 1000]), stamp }))) }).collect();
    steps.push(Step::Commit { batch: Batch { items: first, ..Default::default() }, nonblocking: false });
    for _round in 0..r.range(1, 2) {
        let mut items: Vec<(K, Act)> = Vec::new();
        // how far from the left end values shrink (underfull leaves whose merges cascade rightwards)
        let shrink_upto = r.range(1, 4 + slots / 8);
        for i in 0..slots {
            let k = K(fam(i));
            if anchors.contains(&i) {
                if i < shrink_upto && r.chance(2, 3) { if r.chance(1, 3) { items.push((k, Act::Write(None))); } else { stamp += 1; items.push((k, Act::Write(Some(VSpec { len: *r.pick(&[4u32, 9, 33]), stamp })))); } }
                else { match r.below(10) { 0 => items.push((k, Act::Write(None))), 1 => { stamp += 1; items.push((k, Act::Write(Some(VSpec { len: *r.pick(&[9u32, 1000, 1331, 1332]), stamp })))); } 2 => items.push((k, Act::Read)), _ => {} } }
            } else {
                match r.below(10) {
                    0..=6 => { stamp += 1; items.push((k, Act::Write(Some(VSpec { len: *r.pick(&[0u32, 4, 8, 9, 32, 33, 64, 100, 200]), stamp })))); }
                    7 => { stamp += 1; items.push((k, Act::Write(Some(VSpec { len: *r.pick(&[500u32, 1000, 1331, 1332, 4092, 100_000]), stamp })))); }
                    _ => {}
                }
            }
        }
        if items.is_empty() { continue; }
        steps.push(Step::Commit { batch: Batch { items, ..Default::default() }, nonblocking: false });
        if r.chance(1, 4) { steps.push(Step::Reopen { opts: regen_opts(r, &s.opts, true) }); }
    }
    s.opts.commit_concurrency = cc;
    for st in steps.iter_mut() { if let Step::Reopen { opts } = st { opts.commit_concurrency = cc; } }
    s.steps = steps;
    s.probes.truncate(3);
}

/// Many small commits that each touch a few different children of the root page with several
/// commit workers: every such commit is one more chance for a mis-step in the hand-off between the
/// workers and the one that finishes the root page (the races there are a couple of
/// instructions wide; a run with one big batch has one chance, this one has dozens).
fn handoff_history(s: &mut Scenario, r: &mut Rng) {
    // one key per root child (distinct first six bits), a few children with two
    let mut keys: Vec<Key> = Vec::new();
    for c in 0..64u8 { if r.chance(3, 4) { let mut k = r.bytes32(); k[0] = (c << 2) | (k[0] & 3); keys.push(k); if r.chance(1, 6) { let mut k2 = r.bytes32(); k2[0] = (c << 2) | (k2[0] & 3); keys.push(k2); } } }
    keys.sort(); keys.dedup();
    let mut stamp = 1_700_000u32;
    let mut steps = Vec::new();
    let mk = |sel: Vec<Key>, stamp: &mut u32, r: &mut Rng| -> Batch { let mut items: Vec<(K, Act)> = sel.into_iter().map(|k| { *stamp += 1; (K(k), if r.chance(1, 10) { Act::Write(None) } else { Act::Write(Some(VSpec { len: *r.pick(&[4u32, 8, 32, 100]), stamp: *stamp })) }) }).collect(); items.sort_by(|a, b| a.0.cmp(&b.0)); items.dedup_by(|a, b| a.0 == b.0); Batch { items, ..Default::default() } };
    steps.push(Step::Commit { batch: mk(keys.clone(), &mut stamp, r), nonblocking: false });
    for _ in 0..r.range(30, 70) {
        let n = r.range(2, 7) as usize;
        let sel: Vec<Key> = (0..n).map(|_| *r.pick(&keys)).collect();
        steps.push(Step::Commit { batch: mk(sel, &mut stamp, r), nonblocking: false });
    }
    s.opts.commit_concurrency = *r.pick(&[2usize, 2, 3, 4, 4, 8]);
    s.steps = steps;
    s.probes.truncate(2);
}

/// A value-file free list spanning several pages: a few dozen multi-page values are written and
/// then all replaced in one commit (more than 1022 pages released at once), followed by reopen /
/// small commit / reopen / large commit / ... so that the list is read back from disk, popped
/// across a page boundary, rewritten and read back again.
fn freelist_history(s: &mut Scenario, r: &mut Rng) -> usize {
    let pages_of = |len: u32| (len as u64 + 4091) / 4092;
    let want = r.range(1100, 2300);
    let mut keys: Vec<Key> = Vec::new();
    let mut lens: Vec<u32> = Vec::new();
    let mut total = 0u64;
    while total < want { let k = r.bytes32(); if keys.contains(&k) { continue; } let l = *r.pick(&[40_000u32, 61_380, 65_536, 100_000, 100_000, 130_000]); total += pages_of(l); keys.push(k); lens.push(l); }
    let mut idx: Vec<usize> = (0..keys.len()).collect();
    idx.sort_by_key(|i| keys[*i]);
    let mut stamp = 900_000u32;
    let mut batch = |sel: &[usize], len_of: &dyn Fn(usize) -> Option<u32>| -> Batch { Batch { items: sel.iter().map(|i| { stamp += 1; (K(keys[*i]), match len_of(*i) { Some(len) => Act::Write(Some(VSpec { len, stamp })), None => Act::Write(None) }) }).collect(), ..Default::default() } };
    let mut steps = Vec::new();
    // fill (one or two commits), then release everything at once
    if r.chance(1, 2) { steps.push(Step::Commit { batch: batch(&idx, &|i| Some(lens[i])), nonblocking: false }); }
    else { let h = idx.len() / 2; let (a, b): (Vec<usize>, Vec<usize>) = (idx.iter().cloned().step_by(2).collect(), idx.iter().cloned().skip(1).step_by(2).collect()); let _ = h; steps.push(Step::Commit { batch: batch(&a, &|i| Some(lens[i])), nonblocking: false }); steps.push(Step::Commit { batch: batch(&b, &|i| Some(lens[i])), nonblocking: false }); }
    let small = *r.pick(&[4u32, 200, 1400]);
    match r.below(3) {
        0 => steps.push(Step::Commit { batch: batch(&idx, &|_| Some(small)), nonblocking: false }),
        1 => steps.push(Step::Commit { batch: batch(&idx, &|i| Some(lens[(i + 1) % lens.len()])), nonblocking: false }),
        _ => steps.push(Step::Commit { batch: batch(&idx, &|_| None), nonblocking: false }),
    }
    steps.push(Step::Reopen { opts: regen_opts(r, &s.opts, true) });
    let first_after = steps.len();
    // a small commit that pops only a few pages
    let few: Vec<usize> = { let n = r.range(1, 3) as usize; let mut v: Vec<usize> = idx.iter().cloned().skip(r.usize(idx.len().max(1))).take(n).collect(); v.sort_by_key(|i| keys[*i]); v };
    steps.push(Step::Commit { batch: batch(&few, &|i| Some(lens[i] / 2 + 5000)), nonblocking: false });
    steps.push(Step::Reopen { opts: regen_opts(r, &s.opts, true) });
    // a large one that pops across the boundary between two free-list pages
    steps.push(Step::Commit { batch: batch(&idx, &|i| Some(lens[i])), nonblocking: false });
    if r.chance(1, 2) { steps.push(Step::Reopen { opts: regen_opts(r, &s.opts, true) }); }
    let part: Vec<usize> = idx.iter().cloned().filter(|i| i % 3 != 0).collect();
    steps.push(Step::Commit { batch: batch(&part, &|_| Some(small)), nonblocking: false });
    steps.push(Step::Reopen { opts: regen_opts(r, &s.opts, true) });
    steps.push(Step::Commit { batch: batch(&idx, &|i| if i % 2 == 0 { Some(lens[i]) } else { None }), nonblocking: false });
    // thousands of I/O events per commit: keep the task count moderate (run time, not coverage)
    s.opts.commit_concurrency = s.opts.commit_concurrency.min(8);
    for st in steps.iter_mut() { if let Step::Reopen { opts } = st { opts.commit_concurrency = opts.commit_concurrency.min(8); } }
    s.steps = steps;
    s.probes.truncate(3);
    first_after + *r.pick(&[0usize, 0, 2, 2, 4])
}

pub fn make(prop: &str, tier: Tier, seed: u64) -> Scenario {
    let mut s = make_inner(prop, tier, seed);
    // separate stream: what a seed generated before this family existed is otherwise unchanged
    let mut fr = Rng::new(seed ^ 0xF4EE_1157);
    let applies = matches!(prop, "C01" | "C10" | "C16" | "C17" | "C19" | "C03" | "C04") && s.extra.get("kind").is_none() && s.extra.get("c19_cycles").is_none();
    if applies && fr.chance(1, 14) {
        let target = freelist_history(&mut s, &mut fr);
        let target = target.min(s.steps.len() - 1);
        if let Some(pl) = s.extra.get_mut("plan") { pl["target"] = json!(target); }
    }
    let mut mr = Rng::new(seed ^ 0x3E46_E0CA);
    if matches!(prop, "C01" | "C16" | "C19" | "C10") && s.extra.get("plan").is_none() && s.extra.get("kind").is_none() && s.extra.get("c19_cycles").is_none() && (mr.chance(1, 12) || std::env::var("SIM_FORCE_FAMILY").map_or(false, |v| v == "merge")) {
        merge_cascade_history(&mut s, &mut mr);
    }
    // long churn: 60-140 small commits over a small key pool (tombstones piling up in a small hash
    // table, free-list churn, the rollback log rolling over and being pruned many times), with
    // reopenings and rollbacks in between
    let mut cr = Rng::new(seed ^ 0xC4C4_0177);
    if matches!(prop, "C01" | "C09" | "C10" | "C16" | "C19") && s.extra.get("plan").is_none() && s.extra.get("kind").is_none() && s.extra.get("c19_cycles").is_none() && (cr.chance(1, 16) || std::env::var("SIM_FORCE_FAMILY").map_or(false, |v| v == "churn")) {
        let mut p = Profile::default();
        p.steps = (60, 140); p.pool = (10, 60); p.batch = (1, 10); p.big_pct = 6; p.witness_pct = 0;
        p.w_commit = 80; p.w_reopen = 5; p.w_rollback = 9; p.w_overlay = 6; p.session_reads = 1; p.session_proves = 1;
        p.small_ht = cr.chance(1, 2); p.small_segments = true; p.rollback = Some(cr.chance(3, 4)); p.bad_rollback_pct = 10;
        let s2 = gen_history(prop, seed ^ 0xC4C4_0177, p, s.checks.clone());
        s.steps = s2.steps; s.opts = s2.opts; s.knobs = s2.knobs; s.probes = s2.probes; s.hasher = s2.hasher; s.sched = s2.sched; s.sched_seed = s2.sched_seed;
        // a hundred commits: keep the task count moderate (run time, not coverage)
        s.opts.commit_concurrency = s.opts.commit_concurrency.min(8);
        for st in s.steps.iter_mut() { if let Step::Reopen { opts } = st { opts.commit_concurrency = opts.commit_concurrency.min(8); } }
        if !s.extra.is_object() { s.extra = json!({}); }
        s.extra["rollback_history_every"] = json!(12);
    }
    let mut hr = Rng::new(seed ^ 0x4A4D_0FF5);
    if matches!(prop, "C02" | "C13") && s.extra.get("plan").is_none() && s.extra.get("kind").is_none() && (hr.chance(1, if prop == "C13" { 6 } else { 8 }) || std::env::var("SIM_FORCE_FAMILY").map_or(false, |v| v == "handoff")) {
        handoff_history(&mut s, &mut hr);
        s.checks.proofs = false; s.checks.witness = false; s.checks.multiproof = false; s.checks.reopen_equal = false;
    }
    // buggify: in a quarter of the fault-free runs page reads and writes are sometimes cut short
    // or interrupted (EINTR); nothing observable may change
    let mut br = Rng::new(seed ^ 0xB066_1F10);
    if matches!(prop, "C01" | "C02" | "C05" | "C06" | "C07" | "C09" | "C10" | "C11" | "C13" | "C16" | "C19") && s.extra.get("plan").is_none() && s.extra.get("kind").is_none() && s.faults.is_empty() && br.chance(1, 4) {
        if !s.extra.is_object() { s.extra = json!({}); }
        s.extra["buggify_io"] = json!(*br.pick(&[3u64, 10, 40]));
    }
    let mut or = Rng::new(seed ^ 0x0E11_D0E5);
    if matches!(prop, "C02" | "C05" | "C10" | "C11" | "C16" | "C19") && s.extra.get("plan").is_none() && s.extra.get("kind").is_none() && s.extra.get("c19_cycles").is_none() && or.chance(1, 12) {
        overlay_threshold_history(&mut s, &mut or);
        if prop == "C11" { s.opts.rollback = true; s.opts.max_rollback_log_len = s.opts.max_rollback_log_len.max(5); let n = or.range(1, 3) as usize; for _ in 0..n { s.steps.push(Step::Rollback { n: 1 }); } }
    }
    s
}

fn make_inner(prop: &str, tier: Tier, seed: u64) -> Scenario {
    let mut r = Rng::new(seed ^ 0xA5A5);
    match prop {
        "C01" => {
            let mut p = Profile::default();
            big(&mut r, &mut p, tier);
            p.w_overlay = 6; p.w_rollback = 4; p.big_pct = p.big_pct.max(8);
            let mut c = checks_all();
            c.witness = false; c.multiproof = false; c.proofs = false;
            gen_history(prop, seed, p, c)
        }
        "C02" | "C05" | "C16" if r.chance(1, 10) => {
            let mut c = checks_all();
            c.witness = false; c.multiproof = false; c.proofs = prop == "C05"; c.values = prop != "C02"; c.decode = prop == "C16"; c.reopen_equal = false;
            let mut s = gen_history(prop, seed, Profile::default(), c);
            threshold_history(&mut s, &mut r);
            s
        }
        "C02" if r.chance(1, 8) => {
            // two keys differing first at bit d (every d is reached: d = seed mod 256), alone or
            // next to a few others; then one of them deleted (internal node collapses to a leaf)
            let d = (seed % 256) as usize;
            let mut c = checks_all();
            c.witness = false; c.multiproof = false; c.proofs = false; c.reopen_equal = false;
            let mut s = gen_history(prop, seed, Profile::default(), c);
            let base = r.bytes32();
            let rt = r.chance(1, 2);
            let other = diverge_at(&mut r, &base, d, rt);
            let mut keys = vec![base, other];
            for _ in 0..r.range(0, 3) { let l = r.usize(256); let k = diverge_at(&mut r, &base, l, true); if !keys.contains(&k) { keys.push(k); } }
            keys.sort();
            let mut stamp = 0u32;
            let items: Vec<(K, Act)> = keys.iter().map(|k| { stamp += 1; (K(*k), Act::Write(Some(VSpec { len: *r.pick(&[0u32, 7, 1332, 1333]), stamp }))) }).collect();
            let mut steps = vec![Step::Commit { batch: Batch { items, ..Default::default() }, nonblocking: false }];
            steps.push(Step::Commit { batch: Batch { items: vec![(K(other), Act::Write(None))], ..Default::default() }, nonblocking: false });
            if r.chance(1, 2) { steps.push(Step::Reopen { opts: regen_opts(&mut r, &s.opts, true) }); }
            steps.push(Step::Commit { batch: Batch { items: vec![(K(other), Act::Write(Some(VSpec { len: 5, stamp: 99 })))], ..Default::default() }, nonblocking: false });
            steps.push(Step::DeleteAll { keep: *r.pick(&[0usize, 1]) });
            s.steps = steps;
            s.probes = vec![K(diverge_at(&mut r, &base, d, false)), K(diverge_at(&mut r, &other, 255, false))];
            s
        }
        "C02" => {
            let mut p = Profile::default();
            big(&mut r, &mut p, tier);
            p.w_overlay = 10; p.w_rollback = 4; p.big_pct = 2; p.session_reads = 0;
            let mut c = checks_all();
            c.witness = false; c.multiproof = false; c.proofs = false; c.values = false;
            gen_history(prop, seed, p, c)
        }
        "C05" => {
            let mut p = Profile::default();
            big(&mut r, &mut p, tier);
            p.w_overlay = 14; p.w_rollback = 3; p.big_pct = 3; p.session_proves = 10; p.w_reopen = 14;
            let mut c = checks_all();
            c.witness = false; c.multiproof = false;
            gen_history(prop, seed, p, c)
        }
        "C06" | "C07" => {
            let mut p = Profile::default();
            p.witness_pct = 100; p.w_overlay = 4; p.w_rollback = 2; p.w_reopen = 4; p.big_pct = 5;
            if r.chance(1, 4) { p.pool = (100, 700); p.batch = (30, 400); p.steps = (2, 4); }
            let mut c = checks_all();
            c.multiproof = prop == "C07";
            gen_history(prop, seed, p, c)
        }
        "C09" => {
            let mut p = Profile::default();
            p.rollback = Some(true); p.small_segments = true; p.w_rollback = 30; p.w_reopen = 14; p.w_overlay = 10; p.w_commit = 46;
            p.steps = (3, 12); p.big_pct = 10; p.batch = (1, 12); p.pool = (4, 30); p.witness_pct = 0; p.bad_rollback_pct = 20;
            let mut c = checks_all();
            c.witness = false; c.multiproof = false; c.proofs = false;
            let mut s = gen_history(prop, seed, p, c);
            if r.chance(1, 6) { overlay_chain_history(&mut s, &mut r); }
            s.extra = json!({ "rollback_history_every": r.range(2, 5) });
            s
        }
        "C10" => {
            let mut p = Profile::default();
            big(&mut r, &mut p, tier);
            p.w_reopen = 40; p.w_commit = 44; p.w_rollback = 8; p.w_overlay = 8; p.small_segments = r.chance(1, 2);
            let mut c = checks_all();
            c.witness = false; c.multiproof = false;
            let mut s = gen_history(prop, seed, p, c);
            s.extra = json!({ "rollback_history_every": 3 });
            s
        }
        "C11" => {
            let mut p = Profile::default();
            p.w_overlay = 64; p.w_commit = 22; p.w_rollback = 6; p.w_reopen = 4; p.w_compete = 4; p.steps = (3, 14); p.batch = (1, 16); p.witness_pct = 10;
            if r.chance(1, 6) { p.pool = (100, 500); p.batch = (20, 200); }
            let mut c = checks_all();
            c.multiproof = false;
            let mut s = gen_history(prop, seed, p, c);
            if r.chance(1, 8) { overlay_chain_history(&mut s, &mut r); }
            s.extra = json!({ "rollback_history_every": 4 });
            s
        }
        "C12" => {
            let mut p = Profile::default();
            p.w_compete = 50; p.w_overlay = 20; p.w_commit = 18; p.w_rollback = 8; p.w_reopen = 4; p.steps = (4, 14); p.batch = (1, 8); p.pool = (4, 24);
            p.witness_pct = 0; p.session_proves = 1; p.session_reads = 2; p.big_pct = 6;
            let mut c = checks_all();
            c.witness = false; c.multiproof = false; c.proofs = false;
            gen_history(prop, seed, p, c)
        }
        "C13" => {
            // history from the high bits, configuration / schedule from the whole seed
            let mut p = Profile::default();
            let mut hr = Rng::new((seed >> 3) ^ 0x1313);
            big(&mut hr, &mut p, tier);
            p.witness_pct = 50; p.w_overlay = 8; p.w_rollback = 6; p.w_reopen = 10;
            gen_history_cfg(prop, seed >> 3, seed ^ 0x13C0_F16, p, checks_all())
        }
        "C15" => {
            let mut g = Rng::new(seed);
            // second stream: later additions to the plan do not change what a seed generated before
            let mut g2 = Rng::new(seed ^ 0xC15_0002);
            let mut stamp_extra = 0u32;
            let pn = g.range(3, 7) as usize;
            let pool = gen_pool(&mut g, pn);
            let mut stamp = 0u32;
            let mut val = |g: &mut Rng| { stamp += 1; VSpec { len: *g.pick(&[4u32, 9, 40, 1332, 1400, 5000]), stamp } };
            let n_init = g.range(1, pool.len() as u64 - 1) as usize;
            let initial: Vec<(K, VSpec)> = pool[..n_init].iter().map(|k| (K(*k), val(&mut g))).collect();
            // a third of the plans start with cold caches and more data (several leaves): reads and
            // proofs of the tasks then miss the caches concurrently
            let cold = g2.chance(1, 3);
            let mut initial = initial;
            let mut rpool = pool.clone();
            if cold {
                let ne = 10 + g2.usize(24); let extra = gen_pool(&mut g2, ne);
                for k in extra { if !rpool.contains(&k) { stamp_extra += 1; initial.push((K(k), VSpec { len: *g2.pick(&[700u32, 1000, 1331, 1332, 40]), stamp: 9_000_000 + stamp_extra })); rpool.push(k); } }
            }
            let nw = g.range(1, 2) as usize;
            let nr = g.range(1, 3) as usize;
            let mut opts = gen_opts(&mut g, None, false);
            opts.commit_concurrency = *g.pick(&[1usize, 2, 3]);
            opts.io_workers = g.range(1, 2) as usize;
            let mut writers = Vec::new();
            for _ in 0..nw {
                let mut ops = Vec::new();
                for _ in 0..g.range(1, 3) {
                    let nk = g.range(1, 2) as usize;
                    let mut ws: Vec<(K, Option<VSpec>)> = Vec::new();
                    for _ in 0..nk { let k = K(*g.pick(&pool)); if !ws.iter().any(|w| w.0 == k) { let v = if g.chance(1, 5) { None } else { Some(val(&mut g)) }; ws.push((k, v)); } }
                    // every changeset carries a unique write so that all committed roots differ
                    if ws.iter().all(|w| w.1.is_none()) { ws[0].1 = Some(val(&mut g)); }
                    let r = g.below(10);
                    ops.push(if r < 6 { crate::conc::WOp::Commit { writes: ws, nonblocking: g.chance(1, 2), retries: g.range(0, 2) as u32, par: if g2.chance(1, 4) { g2.range(1, 2) as u32 } else { 0 } } } else if r < 8 { crate::conc::WOp::OverlayCommit { writes: ws, nonblocking: g.chance(1, 2) } } else { crate::conc::WOp::Rollback { n: g.range(1, 2) as usize } });
                }
                writers.push(ops);
            }
            let mut readers = Vec::new();
            for _ in 0..nr {
                let mut ops = Vec::new();
                for _ in 0..g.range(1, 3) {
                    let mut reads: Vec<K> = (0..g.range(1, 4)).map(|_| K(*g.pick(&pool))).collect();
                    let mut proves: Vec<K> = (0..g.range(0, 2)).map(|_| K(*g.pick(&pool))).collect();
                    if cold { for _ in 0..g2.range(1, 4) { reads.push(K(*g2.pick(&rpool))); proves.push(K(*g2.pick(&rpool))); } }
                    ops.push(crate::conc::ROp { reads, proves, hold: g.range(0, 4) as u32, helpers: if g2.chance(1, 3) { g2.range(1, 2) as u32 } else { 0 } });
                }
                readers.push(ops);
            }
            let plan = crate::conc::ConcPlan { initial, writers, readers, initial_commits: g.range(1, 3) as u32, cold };
            Scenario { property: "C15".into(), run_seed: seed, hasher: if g.chance(1, 5) { Hasher::Sha2 } else { Hasher::Blake3 }, opts, knobs: Knobs { seg_max_size: None, grow_pages: Some(16) }, probes: vec![], steps: vec![], faults: vec![],
                sched: if g.chance(1, 3) { Sched::Pct(g.range(1, 4) as usize) } else { Sched::Random }, sched_seed: g.next(), checks: Checks::default(), extra: json!({ "kind": "concurrent", "plan_conc": plan }) }
        }
        "C20" => {
            let mut g = Rng::new(seed);
            let pool = gen_pool(&mut g, 4);
            let initial: Vec<(K, VSpec)> = pool.iter().enumerate().map(|(i, k)| (K(*k), VSpec { len: 9 + i as u32 * 700, stamp: i as u32 + 1 })).collect();
            let mut opts = gen_opts(&mut g, None, false);
            opts.commit_concurrency = *g.pick(&[1usize, 2]);
            opts.io_workers = g.range(1, 2) as usize;
            opts.buckets = opts.buckets.min(4096);
            let n = g.range(2, 3);
            let openers: Vec<(u32, u32, bool, bool)> = (0..n).map(|_| (g.range(0, 60) as u32 * g.range(0, 3) as u32, g.range(0, 40) as u32, g.chance(1, 2), g.chance(1, 4))).collect();
            let mut g3 = Rng::new(seed ^ 0xC20_0003);
            let retries: Vec<u32> = openers.iter().map(|_| if g3.chance(1, 2) { g3.range(1, 4) as u32 } else { 0 }).collect();
            let plan = crate::conc::OpenPlan { dir_state: g.pick(&["existing", "existing", "empty", "missing"]).to_string(), initial, openers, retries };
            Scenario { property: "C20".into(), run_seed: seed, hasher: Hasher::Blake3, opts, knobs: Knobs { seg_max_size: None, grow_pages: Some(16) }, probes: vec![], steps: vec![], faults: vec![],
                sched: if g.chance(1, 3) { Sched::Pct(g.range(1, 4) as usize) } else { Sched::Random }, sched_seed: g.next(), checks: Checks::default(), extra: json!({ "kind": "openrace", "plan_open": plan }) }
        }
        "C16" | "C19" if r.chance(1, 4) => {
            // "...and after any recovered crash": the decoder also runs on every recovered image
            let mut s = make_inner(if r.chance(1, 2) { "C03" } else { "C04" }, tier, seed);
            s.property = prop.to_string();
            s.checks.rules = false;
            s
        }
        "C16" | "C17" | "C19" => {
            let mut p = Profile::default();
            big(&mut r, &mut p, tier);
            p.w_overlay = 10; p.w_rollback = 8; p.w_reopen = 10; p.witness_pct = 0; p.session_proves = 1; p.session_reads = 1;
            p.big_pct = p.big_pct.max(10);
            p.small_ht = r.chance(1, 4) && p.pool.1 <= 60;
            p.small_segments = r.chance(1, 2);
            if prop == "C19" && r.chance(1, 3) { p.steps = (6, 16); p.pool = (20, 120); p.batch = (10, 120); }
            let mut c = Checks::default();
            c.root = true;
            c.values = prop != "C17";
            c.decode = prop == "C16";
            c.accounting = prop == "C19";
            c.intact = prop == "C17";
            let mut s = gen_history(prop, seed, p, c);
            let long = prop == "C19" && tier == Tier::Thorough && r.chance(1, 12);
            if long || (prop == "C19" && r.chance(1, 3)) {
                // fill / overwrite / empty cycles over one fixed key family, fills alternating between
                // two fixed length layouts (see the frontier bound in exec.rs)
                let n = if long { r.range(600, 2500) as usize } else { r.range(8, 120) as usize };
                let mut kr = Rng::new(seed ^ 0xC19);
                let keys: Vec<K> = { let mut v: Vec<Key> = (0..n).map(|_| kr.bytes32()).collect(); v.sort(); v.dedup(); v.into_iter().map(K).collect() };
                let lens: Vec<(u32, u32)> = keys.iter().map(|_| { let a = gen_len(&mut kr, 25); let b = gen_len(&mut kr, 25); (a.min(20000), b.min(20000)) }).collect();
                s.steps.clear();
                let cycles = if long { r.range(5, 7) } else { r.range(5, 6) };
                let mut stamp = 2_000_000u32;
                // every cycle has the same structure (the bound compares like with like)
                let with_overwrite = r.chance(1, 2);
                for cyc in 0..cycles {
                    let fill = Batch { items: keys.iter().zip(lens.iter()).map(|(k, l)| { stamp += 1; (*k, Act::Write(Some(VSpec { len: if cyc % 2 == 0 { l.0 } else { l.1 }, stamp }))) }).collect(), ..Default::default() };
                    s.steps.push(Step::Commit { batch: fill, nonblocking: false });
                    if with_overwrite {
                        // overwrite half of the keys with the other layout's length and back again
                        for flip in 0..2 {
                            let ow = Batch { items: keys.iter().zip(lens.iter()).step_by(2).map(|(k, l)| { stamp += 1; (*k, Act::Write(Some(VSpec { len: if (cyc + flip) % 2 == 0 { l.1 } else { l.0 }, stamp }))) }).collect(), ..Default::default() };
                            s.steps.push(Step::Commit { batch: ow, nonblocking: false });
                        }
                    }
                    let del = Batch { items: keys.iter().map(|k| (*k, Act::Write(None))).collect(), ..Default::default() };
                    s.steps.push(Step::Commit { batch: del, nonblocking: false });
                }
                s.probes.clear();
                if long { s.opts.buckets = s.opts.buckets.max(5000); }
                s.extra = json!({ "c19_cycles": true, "max_steps": if long { 2_000_000_000u64 } else { 100_000_000u64 } });
            }
            s
        }
        "C14" if r.chance(1, 8) => {
            // bucket exhaustion: a tiny hash table filled until the page allocator gives up; no
            // injected fault — the failing commit must be reported, poison the handle and stay atomic
            let mut p = Profile::default();
            p.small_ht = true; p.steps = (3, 8); p.pool = (250, 700); p.batch = (60, 300); p.big_pct = 1; p.witness_pct = 0;
            p.w_commit = 80; p.w_reopen = 6; p.w_rollback = 6; p.w_overlay = 8; p.session_proves = 0; p.session_reads = 0;
            let mut c = checks_all();
            c.witness = false; c.multiproof = false; c.proofs = false; c.reopen_equal = false;
            let mut s = gen_history(prop, seed, p, c);
            s.opts.buckets = *r.pick(&[64u32, 64, 70, 80]);
            // uniformly random keys: every one of the 64 first-level pages gets content
            let mut stamp = 3_000_000u32;
            let mut steps = Vec::new();
            for _ in 0..r.range(3, 6) {
                let mut ks: Vec<Key> = (0..r.range(80, 220)).map(|_| r.bytes32()).collect();
                ks.sort(); ks.dedup();
                let items: Vec<(K, Act)> = ks.into_iter().map(|k| { stamp += 1; (K(k), Act::Write(Some(VSpec { len: *r.pick(&[4u32, 30, 200]), stamp }))) }).collect();
                steps.push(Step::Commit { batch: Batch { items, ..Default::default() }, nonblocking: false });
                if r.chance(1, 4) { steps.push(Step::Rollback { n: 1 }); }
            }
            s.steps = steps;
            s.probes.clear();
            s
        }
        "C03" | "C04" | "C14" => {
            // a short history that builds state (large values, deletions that free pages, a hash
            // table with tombstones, rollback segments), then one target step whose I/O events get
            // crash points / loss patterns / failing operations (expanded after a dry run)
            let mut p = Profile::default();
            p.steps = (2, 7); p.pool = (6, 40); p.batch = (1, 20); p.big_pct = 14; p.witness_pct = 0;
            p.w_commit = 60; p.w_reopen = 8; p.w_rollback = 14; p.w_overlay = 14; p.w_compete = 0;
            p.session_proves = 1; p.session_reads = 1; p.nonblocking_pct = 10; p.bad_rollback_pct = 0;
            p.small_segments = r.chance(2, 3); p.rollback = Some(r.chance(3, 4));
            p.small_ht = prop == "C14" && r.chance(1, 6);
            if r.chance(1, 8) { p.pool = (100, 400); p.batch = (30, 200); p.steps = (2, 4); }
            let mut c = checks_all();
            c.witness = false; c.multiproof = false; c.proofs = false; c.reopen_equal = false;
            c.rules = prop == "C04";
            let mut s = gen_history(prop, seed, p, c);
            // hash tables of one meta-map page keep recovery's write order deterministic (DESIGN §3a)
            if s.opts.buckets > 4096 { s.opts.buckets = 4096; for st in s.steps.iter_mut() { if let Step::Reopen { opts } = st { opts.buckets = 4096; } } }
            if r.chance(1, 6) {
                threshold_history(&mut s, &mut r);
                // the growth commit (promotion of the elided page) is the natural target
                let growth = s.steps.iter().enumerate().filter(|(_, st)| matches!(st, Step::Commit { .. })).map(|(i, _)| i).nth(1).unwrap_or(0);
                let target = if r.chance(2, 3) { growth } else { s.steps.len() - 1 };
                let mode = match prop { "C03" => "crash", "C04" => "power", _ => "fail" };
                s.extra = json!({ "plan": { "target": target, "mode": mode }, "nested": if prop == "C14" { 0 } else { r.range(0, 1) }, "post_power": if prop == "C04" { 2 } else { 0 } });
                return s;
            }
            // sometimes the target is a deletion-only commit (WAL with cleared pages and no fresh
            // bucket; emptied leaves and merkle pages, possibly the root page)
            if r.chance(1, 4) { s.steps.push(Step::DeleteAll { keep: *r.pick(&[0usize, 0, 1, 2, 5]) }); }
            // target: a mutating step (commit / overlay commit / rollback / reopen), preferably late
            let cands: Vec<usize> = s.steps.iter().enumerate().filter(|(_, st)| matches!(st, Step::Commit { .. } | Step::DeleteAll { .. } | Step::OvCommit { .. } | Step::Rollback { .. } | Step::Reopen { .. })).map(|(i, _)| i).collect();
            let target = if cands.is_empty() { 0 } else if r.chance(2, 3) { *cands.last().unwrap() } else { *r.pick(&cands) };
            let mode = match prop { "C03" => "crash", "C04" => "power", _ => "fail" };
            s.extra = json!({ "plan": { "target": target, "mode": mode }, "nested": if prop == "C14" { 0 } else { r.range(0, 2) }, "post_power": if prop == "C04" { 2 } else { 0 } });
            s
        }
        _ => gen_history(prop, seed, Profile::default(), checks_all()),
    }
}

fn interesting(site: &str) -> bool {
    site.starts_with("meta.") || site.starts_with("wal.") || site.starts_with("ht.") || site.starts_with("seg.unlink") || site.starts_with("seg.truncate") || site.starts_with("seg.create") || site.starts_with("seg.dir") || site == "store.grow"
}

/// Turn a planned scenario plus the dry run's event list into explicit fault plans.
pub fn expand(base: &Scenario, dry: &crate::exec::Report, tier: Tier) -> Vec<Scenario> {
    let plan = &base.extra["plan"];
    let target = plan["target"].as_u64().unwrap_or(0) as usize;
    let mode = plan["mode"].as_str().unwrap_or("crash").to_string();
    let events: Vec<String> = dry.step_events.get(target).cloned().unwrap_or_default();
    let n = events.len() as u64;
    let mut r = Rng::new(base.run_seed ^ 0xFA17);
    let mut out = Vec::new();
    let mut s0 = base.clone();
    s0.extra.as_object_mut().unwrap().remove("plan");
    if n == 0 { out.push(s0); return out; }
    // ordinals: the boundary before each interesting event and the one right after it
    let mut pts: std::collections::BTreeSet<u64> = Default::default();
    for (i, e) in events.iter().enumerate() { let site = e.split(':').next().unwrap_or(""); if interesting(site) { pts.insert(i as u64); if (i as u64) + 1 < n { pts.insert(i as u64 + 1); } } }
    let (cap, all) = match (mode.as_str(), tier) { ("fail", Tier::Quick) => (8, false), ("fail", Tier::Thorough) => (150, true), ("power", Tier::Thorough) => (100, true), (_, Tier::Quick) => (14, false), (_, Tier::Thorough) => (300, true) };
    // every crash / power-loss point costs a copy of the directory, two reopens, a decode and a
    // further commit: with thousands of events in the target step (multi-page values) fewer points
    // per scenario keep one run within its wall-clock limit; the budget then goes to more scenarios
    let cap = if mode != "fail" && tier == Tier::Thorough { cap.min((if mode == "power" { 40_000 } else { 120_000 } / n.max(1)).max(if mode == "power" { 12 } else { 24 })) } else { cap };
    // nested crash points multiply the images per point (1 + k + k^2 for k points per recovery,
    // two levels): about 300 image checks per scenario at most
    let k = base.extra.get("nested").and_then(|x| x.as_u64()).unwrap_or(0);
    let cap = if mode != "fail" && tier == Tier::Thorough && k > 0 { cap.min((300 / ((1 + k + k * k) * if mode == "power" { 4 } else { 1 })).max(10)) } else { cap };
    let mut chosen: Vec<u64> = if all && n <= cap { (0..n).collect() } else {
        let mut v: Vec<u64> = pts.into_iter().collect();
        r.shuffle(&mut v);
        v.truncate((cap as usize * 2) / 3);
        while (v.len() as u64) < cap.min(n) { let x = r.below(n); if !v.contains(&x) { v.push(x); } }
        v
    };
    chosen.sort();
    let site_of = |k: u64| events[k as usize].split(':').next().unwrap_or("").to_string();
    let len_of = |k: u64| events[k as usize].rsplit(':').next().and_then(|x| x.parse::<u64>().ok()).unwrap_or(0);
    match mode.as_str() {
        "crash" => {
            for &k in &chosen {
                s0.faults.push(Fault { step: target, event: k, kind: FaultKind::CrashImage });
                if (site_of(k) == "wal.append" || site_of(k) == "seg.append_payload") && len_of(k) > 4096 { s0.faults.push(Fault { step: target, event: k, kind: FaultKind::TornImage { pages: r.next() as u32 } }); }
            }
            out.push(s0);
        }
        "power" => {
            let pats = if tier == Tier::Quick { 3 } else { 4 };
            for &k in &chosen {
                for j in 0..pats {
                    let mode = match j { 0 => 0u64, 1 => 2, 2 => 3, 3 => 4, 4 => 5, _ => 2 };
                    s0.faults.push(Fault { step: target, event: k, kind: FaultKind::PowerImage { pattern: (r.next() / 6) * 6 + mode } });
                }
            }
            out.push(s0);
        }
        _ => {
            // one failing operation per run; plus one run of absorbed short / interrupted page writes
            for &k in &chosen {
                let site = site_of(k);
                let errno = if site.contains("grow") || site.contains("append") || site.contains("pad") || site.contains("reset") { libc::ENOSPC } else { libc::EIO };
                let mut s = s0.clone();
                s.faults.push(Fault { step: target, event: k, kind: FaultKind::Fail { errno, persistent: r.chance(1, 2) } });
                out.push(s);
            }
            let pool: Vec<u64> = (0..n).filter(|k| site_of(*k) == "pool.write").collect();
            if !pool.is_empty() {
                let mut s = s0.clone();
                // only the first few: every injected retry shifts the ordinals of later events
                for (j, k) in pool.iter().take(3).enumerate() {
                    let kind = if j % 2 == 0 { FaultKind::Short { bytes: 1 + (r.next() % 4095) as u32 } } else { FaultKind::Eintr };
                    s.faults.push(Fault { step: target, event: *k + j as u64, kind });
                }
                out.push(s);
            }
        }
    }
    out
}
