//! Per-property scenario construction and budgets.
use crate::gen::*;
use crate::rng::Rng;
use crate::scenario::*;
use serde_json::json;

pub fn runs(prop: &str, tier: Tier) -> u64 {
    let (q, t) = match prop {
        "C01" | "C02" | "C05" => (2500, 30000),
        "C06" | "C07" => (3000, 36000),
        "C09" | "C10" | "C11" | "C12" => (2500, 30000),
        "C13" => (2400, 32000),
        _ => (1500, 20000),
    };
    match tier { Tier::Quick => q, Tier::Thorough => t }
}

fn big(r: &mut Rng, p: &mut Profile, tier: Tier) {
    // occasionally a large pool: leaf / branch splits, merges, multi-page free lists
    let odds = if tier == Tier::Thorough { 5 } else { 8 };
    if r.chance(1, odds) { p.pool = (300, 1500); p.batch = (100, 700); p.steps = (2, 6); p.big_pct = 3; p.session_proves = 6; }
    if tier == Tier::Thorough && r.chance(1, 60) { p.pool = (3000, 6000); p.batch = (1500, 4000); p.steps = (3, 7); p.big_pct = 1; }
}

pub fn make(prop: &str, tier: Tier, seed: u64) -> Scenario {
    let mut r = Rng::new(seed ^ 0xA5A5);
    match prop {
        "C01" => {
            let mut p = Profile::default();
            big(&mut r, &mut p, tier);
            p.w_overlay = 6; p.w_rollback = 4; p.big_pct = p.big_pct.max(8);
            let mut c = checks_all();
            c.witness = false; c.multiproof = false; c.proofs = false;
            gen_history(prop, seed, p, c)
        }
        "C02" => {
            let mut p = Profile::default();
            big(&mut r, &mut p, tier);
            p.w_overlay = 10; p.w_rollback = 4; p.big_pct = 2; p.session_reads = 0;
            let mut c = checks_all();
            c.witness = false; c.multiproof = false; c.proofs = false; c.values = false;
            gen_history(prop, seed, p, c)
        }
        "C05" => {
            let mut p = Profile::default();
            big(&mut r, &mut p, tier);
            p.w_overlay = 14; p.w_rollback = 3; p.big_pct = 3; p.session_proves = 10; p.w_reopen = 14;
            let mut c = checks_all();
            c.witness = false; c.multiproof = false;
            gen_history(prop, seed, p, c)
        }
        "C06" | "C07" => {
            let mut p = Profile::default();
            p.witness_pct = 100; p.w_overlay = 4; p.w_rollback = 2; p.w_reopen = 4; p.big_pct = 5;
            if r.chance(1, 4) { p.pool = (100, 700); p.batch = (30, 400); p.steps = (2, 4); }
            let mut c = checks_all();
            c.multiproof = prop == "C07";
            gen_history(prop, seed, p, c)
        }
        "C09" => {
            let mut p = Profile::default();
            p.rollback = Some(true); p.small_segments = true; p.w_rollback = 30; p.w_reopen = 14; p.w_overlay = 10; p.w_commit = 46;
            p.steps = (3, 12); p.big_pct = 10; p.batch = (1, 12); p.pool = (4, 30); p.witness_pct = 0; p.bad_rollback_pct = 20;
            let mut c = checks_all();
            c.witness = false; c.multiproof = false; c.proofs = false;
            let mut s = gen_history(prop, seed, p, c);
            s.extra = json!({ "rollback_history_every": r.range(2, 5) });
            s
        }
        "C10" => {
            let mut p = Profile::default();
            big(&mut r, &mut p, tier);
            p.w_reopen = 40; p.w_commit = 44; p.w_rollback = 8; p.w_overlay = 8; p.small_segments = r.chance(1, 2);
            let mut c = checks_all();
            c.witness = false; c.multiproof = false;
            let mut s = gen_history(prop, seed, p, c);
            s.extra = json!({ "rollback_history_every": 3 });
            s
        }
        "C11" => {
            let mut p = Profile::default();
            p.w_overlay = 64; p.w_commit = 22; p.w_rollback = 6; p.w_reopen = 4; p.w_compete = 4; p.steps = (3, 14); p.batch = (1, 16); p.witness_pct = 10;
            if r.chance(1, 6) { p.pool = (100, 500); p.batch = (20, 200); }
            let mut c = checks_all();
            c.multiproof = false;
            let mut s = gen_history(prop, seed, p, c);
            s.extra = json!({ "rollback_history_every": 4 });
            s
        }
        "C12" => {
            let mut p = Profile::default();
            p.w_compete = 50; p.w_overlay = 20; p.w_commit = 18; p.w_rollback = 8; p.w_reopen = 4; p.steps = (4, 14); p.batch = (1, 8); p.pool = (4, 24);
            p.witness_pct = 0; p.session_proves = 1; p.session_reads = 2; p.big_pct = 6;
            let mut c = checks_all();
            c.witness = false; c.multiproof = false; c.proofs = false;
            gen_history(prop, seed, p, c)
        }
        "C13" => {
            // history from the high bits, configuration / schedule from the whole seed
            let mut p = Profile::default();
            let mut hr = Rng::new((seed >> 3) ^ 0x1313);
            big(&mut hr, &mut p, tier);
            p.witness_pct = 50; p.w_overlay = 8; p.w_rollback = 6; p.w_reopen = 10;
            gen_history_cfg(prop, seed >> 3, seed ^ 0x13C0_F16, p, checks_all())
        }
        _ => gen_history(prop, seed, Profile::default(), checks_all()),
    }
}
