//! The history executor: drives one `Scenario` against the real `nomt` crate (running under the
//! controlled scheduler) and the model side by side, and evaluates the oracles after every step.
use crate::disk::SimDisk;
use crate::model::{ref_proof, ref_trie, HashCache, Model, RNode, RefTerminal, State};
use crate::scenario::*;
use bitvec::prelude::*;
use nomt::hasher::{Blake3Hasher, Sha2Hasher};
use nomt::proof::{self, MultiProof, PathProof, PathProofTerminal, PathUpdate};
use nomt::trie::LeafData;
use nomt::{HashAlgorithm, KeyReadWrite, Nomt, Options, Overlay, Session, SessionParams, Witness, WitnessMode};
use serde::{Deserialize, Serialize};
use std::collections::{BTreeMap, BTreeSet};
use std::path::{Path, PathBuf};
use std::sync::{Arc, Mutex};

#[derive(Clone, Debug, Serialize, Deserialize)]
pub struct Violation {
    pub property: String,
    /// Stable class name: what kind of observation diverged (used by minimisation and by the
    /// known-findings file).
    pub class: String,
    pub detail: String,
    pub step: Option<usize>,
}

#[derive(Clone, Debug, Default, Serialize, Deserialize)]
pub struct Report {
    pub violations: Vec<Violation>,
    pub steps_done: usize,
    pub commits: u64,
    pub events: u64,
    pub mutating_events: u64,
    pub images_checked: u64,
    pub images_old: u64,
    pub images_new: u64,
    pub nested_images: u64,
    pub reads_checked: u64,
    pub proofs_checked: u64,
    pub witnesses_checked: u64,
    pub multiproofs_checked: u64,
    pub decodes: u64,
    pub probes: BTreeMap<String, u64>,
    pub faults_fired: BTreeMap<String, u64>,
    pub event_kinds: BTreeMap<String, u64>,
    /// Hash of (step shapes, fault sites, event interleaving) — the "distinct" measure.
    pub signature: u64,
    pub sched_steps: u64,
    pub panic: Option<String>,
    pub notes: Vec<String>,
    /// Dry mode only: for every step the sites of its mutating events, in order ("site:file").
    #[serde(default)]
    pub step_events: Vec<Vec<String>>,
    #[serde(default)]
    pub rules_checked: u64,
}

pub type Shared = Arc<Mutex<Report>>;

pub fn to_options(dir: &Path, o: &Opts) -> Options {
    let mut opts = Options::new();
    opts.path(dir);
    opts.commit_concurrency(o.commit_concurrency);
    opts.io_workers(o.io_workers);
    opts.warm_up(o.warm_up);
    opts.page_cache_size(o.page_cache_mb);
    opts.leaf_cache_size(o.leaf_cache_mb);
    opts.page_cache_upper_levels(o.upper_levels);
    opts.prepopulate_page_cache(o.prepopulate);
    opts.hashtable_buckets(o.buckets);
    let mut seed = [0u8; 16];
    seed[..8].copy_from_slice(&o.bitbox_seed.to_be_bytes());
    seed[8..].copy_from_slice(&crate::rng::mix(o.bitbox_seed).to_be_bytes());
    opts.bitbox_seed(seed);
    opts.preallocate_ht(o.preallocate_ht);
    opts.rollback(o.rollback);
    opts.max_rollback_log_len(o.max_rollback_log_len);
    opts
}

/// A session that is always *finished* (with an empty batch) rather than dropped when warm-up is
/// on: dropping an unfinished session makes nomt's warm-up worker panic ("unexpected failure of the
/// finish channel"), which nomt catches itself but which the scheduler cannot unwind through.
pub struct SessGuard<H: HashAlgorithm> { s: Option<Session<H>>, finish_on_drop: bool }
impl<H: HashAlgorithm> SessGuard<H> {
    pub fn new(s: Session<H>, warm_up: bool) -> Self { SessGuard { s: Some(s), finish_on_drop: warm_up } }
    pub fn into_inner(mut self) -> Session<H> { self.s.take().unwrap() }
}
impl<H: HashAlgorithm> std::ops::Deref for SessGuard<H> { type Target = Session<H>; fn deref(&self) -> &Session<H> { self.s.as_ref().unwrap() } }
impl<H: HashAlgorithm> Drop for SessGuard<H> {
    fn drop(&mut self) { if let Some(s) = self.s.take() { if self.finish_on_drop { let _ = s.finish(vec![]); } } }
}

pub struct Viol(pub Violation);
type R<T> = Result<T, Viol>;

fn viol(prop: &str, class: &str, detail: String, step: Option<usize>) -> Viol {
    Viol(Violation { property: prop.to_string(), class: class.to_string(), detail, step })
}

struct OvNode {
    overlay: Option<Overlay>,
    parent: Option<usize>,
    /// State the overlay was built on, and the state of "chain committed".
    base: State,
    state: State,
    writes: Vec<(Key, Option<VSpec>)>,
    status: OvStatus,
    /// True once an attempt to commit it was rejected (the object is consumed by the attempt).
    consumed: bool,
}
#[derive(Clone, Copy, PartialEq, Debug)]
enum OvStatus { Live, Committed, Dropped }

pub struct Exec<'a, H: HashAlgorithm> {
    pub scen: &'a Scenario,
    pub prop: String,
    pub dir: PathBuf,
    pub model: Model,
    pub hc: HashCache,
    pub rep: Shared,
    pub disk: Arc<SimDisk>,
    pub nomt: Option<Nomt<H>>,
    pub opts: Opts,
    overlays: BTreeMap<usize, OvNode>,
    prepared: BTreeMap<usize, (nomt::FinishedSession, State, State, Vec<(Key, Option<VSpec>)>)>,
    /// id of the overlay whose commit was the last commit (marker semantics).
    last_committed_overlay: Option<usize>,
    step: usize,
    cur_trie: Option<RNode>,
    /// Per step with armed image faults: (state before, state after if it succeeds, seqn before, options).
    pub snaps: BTreeMap<usize, StepSnap>,
    pub halted: bool,
    /// (ln bump, bbn bump) observed each time the store became empty again (C19 cycles).
    empty_bumps: Vec<(u32, u32)>,
}

#[derive(Clone)]
pub struct StepSnap { pub old: State, pub new: State, pub seqn_old: u32, pub seqn_new: u32, pub opts: Opts, pub old_retained: usize, pub old_history: Vec<State>, pub returned_ok: bool }

macro_rules! rep { ($s:expr) => { $s.rep.lock().unwrap() }; }

impl<'a, H: HashAlgorithm> Exec<'a, H> {
    pub fn new(scen: &'a Scenario, dir: PathBuf, rep: Shared, disk: Arc<SimDisk>) -> Self {
        Exec {
            scen,
            prop: scen.property.clone(),
            dir,
            model: Model::new(scen.opts.rollback, scen.opts.max_rollback_log_len as usize),
            hc: HashCache::default(),
            rep,
            disk,
            nomt: None,
            opts: scen.opts.clone(),
            overlays: BTreeMap::new(),
            prepared: BTreeMap::new(),
            last_committed_overlay: None,
            step: 0,
            cur_trie: None,
            snaps: BTreeMap::new(),
            halted: false,
            empty_bumps: Vec::new(),
        }
    }

    fn snap(&mut self, new: State, bumps_seqn: bool) {
        let armed = self.scen.faults.iter().any(|f| f.step == self.step);
        if !armed { return; }
        let s = StepSnap { old: self.model.cur.clone(), new, seqn_old: self.model.seqn, seqn_new: self.model.seqn + bumps_seqn as u32, opts: self.opts.clone(), old_retained: self.model.retained, old_history: self.model.history.clone(), returned_ok: false };
        self.snaps.insert(self.step, s);
    }
    fn snap_ok(&mut self) {
        let Some(s) = self.snaps.get_mut(&self.step) else { return };
        s.returned_ok = true;
        // acknowledged => durable: power-loss images taken right after the operation returned
        let n = self.scen.extra.get("post_power").and_then(|x| x.as_u64()).unwrap_or(0);
        for j in 0..n {
            let pattern = crate::rng::mix(self.scen.run_seed ^ (self.step as u64) << 20 ^ j);
            self.disk.fork_power_image_rec(&self.dir, if j == 0 { 0 } else { pattern }, self.step, "quiescent");
        }
    }

    /// An operation returned `Err`. Legitimate only if an injected error was delivered during this
    /// step or the hash table ran out of buckets; then C14's obligations are checked.
    fn op_failed(&mut self, e: anyhow::Error, new: State) -> R<()> {
        let prop = self.prop.clone();
        let delivered: Vec<String> = self.disk.delivered_errors().into_iter().filter(|(st, _)| *st == self.step).map(|x| x.1).collect();
        let msg = format!("{e:#}");
        let exhaustion = msg.contains("bucket exhaustion");
        if delivered.is_empty() && !exhaustion {
            return Err(self.v(&prop, "commit-error", format!("operation failed without any injected fault: {msg}")));
        }
        if exhaustion { *rep!(self).faults_fired.entry("exhaustion:buckets".into()).or_default() += 1; }
        let what = if exhaustion { "bucket exhaustion".to_string() } else { format!("injected error at {}", delivered.join("+")) };
        if !self.nomt().is_poisoned() {
            return Err(self.v("C14", "failed-commit-not-poisoned", format!("operation failed ({what}: {msg}) but is_poisoned() is false")));
        }
        // further commits must be refused
        let sess = self.nomt().begin_session(SessionParams::default());
        match sess.finish(vec![]) {
            Ok(fin) => if fin.commit(self.nomt()).is_ok() { return Err(self.v("C14", "poisoned-handle-accepts-commit", format!("a commit after the failed operation ({what}) was accepted"))); },
            Err(_) => {}
        }
        // drop, stop injecting, reopen: exactly old or new
        self.quiesce();
        let old = self.model.cur.clone();
        for (_, n) in self.overlays.iter_mut() { if n.status == OvStatus::Live { n.overlay = None; n.status = OvStatus::Dropped; } }
        drop(self.nomt.take());
        self.disk.clear_persistent_fail();
        self.last_committed_overlay = None;
        let o = to_options(&self.dir, &self.opts);
        let n = Nomt::<H>::open(o).map_err(|e| self.v("C14", "reopen-after-failed-commit", format!("directory does not reopen after a failed operation ({what}): {e:#}")))?;
        self.nomt = Some(n);
        let root = self.nomt().root().into_inner();
        let r_old = ref_trie::<H>(&old, &mut self.hc).hash();
        let r_new = ref_trie::<H>(&new, &mut self.hc).hash();
        let seqn = self.nomt().sync_seqn();
        let chosen_new = if root == r_old && (seqn == self.model.seqn || r_old == r_new) { seqn != self.model.seqn } else if root == r_new { true } else {
            return Err(self.v("C14", "failed-commit-not-atomic", format!("after a failed operation ({what}) and reopen the root {} is neither the pre-state {} nor the post-state {}", hex(&root), hex(&r_old), hex(&r_new))));
        };
        if chosen_new {
            // the switch-over happened: the model moves
            let writes: Vec<(Key, Option<VSpec>)> = { let mut w = Vec::new(); for k in old.keys() { if !new.contains_key(k) { w.push((*k, None)); } } for (k, v) in &new { if old.get(k) != Some(v) { w.push((*k, Some(*v))); } } w };
            self.model.commit(&writes);
            if self.model.seqn != seqn { return Err(self.v("C14", "failed-commit-not-atomic", format!("post-state root with sync_seqn {seqn}, expected {}", self.model.seqn))); }
            // the rollback history of a half-failed operation is not compared (conservative)
            self.model.retained = 0;
        } else {
            if seqn != self.model.seqn { return Err(self.v("C14", "failed-commit-not-atomic", format!("pre-state root with sync_seqn {seqn}, expected {}", self.model.seqn))); }
            self.model.retained = self.model.retained.min(self.model.retained); 
        }
        self.invalidate();
        let st = self.model.cur.clone();
        self.check_values(&st, None).map_err(|Viol(mut v)| { v.property = "C14".into(); v.class = format!("failed-commit-{}", v.class); Viol(v) })?;
        rep!(self).notes.push(format!("step {}: failed operation handled ({what}); reopened as {}", self.step, if chosen_new { "new" } else { "old" }));
        Ok(())
    }

    /// Let the background tasks of a failed operation run until nothing but the caller is runnable.
    /// (After an injected failure the call returns early while other workers of the same sync are
    /// still going; dropping the handle under them makes them panic on the closed I/O pool, which
    /// nomt swallows but the scheduler cannot unwind through.)
    pub fn quiesce(&self) { quiesce() }
}

/// See [`Exec::quiesce`].
pub fn quiesce() {
    {
        use std::sync::atomic::Ordering;
        let mut last = simrt::SYNC_OPS.load(Ordering::Relaxed);
        let mut calm = 0u32;
        for _ in 0..3_000_000u32 {
            simrt::shuttle::thread::yield_now();
            let now = simrt::SYNC_OPS.load(Ordering::Relaxed);
            if now == last { calm += 1; if calm >= 4000 { break; } } else { calm = 0; last = now; }
        }
    }
}

impl<'a, H: HashAlgorithm> Exec<'a, H> {
    fn swallowed(&mut self) -> R<()> {
        let delivered: Vec<String> = self.disk.delivered_errors().into_iter().filter(|(st, _)| *st == self.step).map(|x| x.1).collect();
        if !delivered.is_empty() {
            return Err(self.v("C14", "io-error-swallowed", format!("an injected I/O error was delivered at {} but the operation returned Ok", delivered.join("+"))));
        }
        Ok(())
    }

    fn v(&self, prop: &str, class: &str, detail: String) -> Viol { viol(prop, class, detail, Some(self.step)) }

    pub fn open(&mut self) -> R<()> {
        let o = to_options(&self.dir, &self.opts);
        match Nomt::<H>::open(o) {
            Ok(n) => { self.nomt = Some(n); Ok(()) }
            Err(e) => Err(self.v(&self.prop.clone(), "open-failed", format!("Nomt::open failed: {e:#}"))),
        }
    }

    fn nomt(&self) -> &Nomt<H> { self.nomt.as_ref().unwrap() }

    fn trie(&mut self) -> &RNode {
        if self.cur_trie.is_none() { self.cur_trie = Some(ref_trie::<H>(&self.model.cur, &mut self.hc)); }
        self.cur_trie.as_ref().unwrap()
    }
    fn invalidate(&mut self) { self.cur_trie = None; }

    fn check_keys(&self) -> Vec<Key> {
        let mut ks: BTreeSet<Key> = self.model.touched.iter().cloned().collect();
        ks.extend(self.model.cur.keys().cloned());
        ks.extend(self.scen.probes.iter().map(|k| k.0));
        ks.into_iter().collect()
    }

    /// C01: direct reads and reads through a fresh session equal the model.
    pub fn check_values(&mut self, state: &State, via_session: Option<&Session<H>>) -> R<()> {
        let keys = self.check_keys();
        let nomt = self.nomt.as_ref().unwrap();
        let sess_owned;
        let sess = match via_session { Some(s) => s, None => { sess_owned = SessGuard::new(nomt.begin_session(SessionParams::default()), self.opts.warm_up); &*sess_owned } };
        let mut n = 0;
        for k in &keys {
            let want = state.get(k).map(|v| value_bytes(k, *v));
            if via_session.is_none() {
                let got = nomt.read(*k).map_err(|e| self.v("C01", "read-error", format!("Nomt::read({}) failed: {e:#}", hex(k))))?;
                if got != want {
                    return Err(self.v("C01", "value-mismatch", format!("Nomt::read({}) = {}, model = {}", hex(k), dv(&got), dv(&want))));
                }
            }
            let got = sess.read(*k).map_err(|e| self.v("C01", "read-error", format!("Session::read({}) failed: {e:#}", hex(k))))?;
            if got != want {
                return Err(self.v("C01", "value-mismatch", format!("Session::read({}) = {}, model = {}", hex(k), dv(&got), dv(&want))));
            }
            n += 1;
        }
        rep!(self).reads_checked += n;
        Ok(())
    }

    /// C05: proofs for `keys` through `sess` verify against `root`, are truthful w.r.t. `state`
    /// and have exactly the terminal and siblings the reference trie predicts.
    fn check_proofs(&mut self, sess: &Session<H>, state: &State, trie: &RNode, keys: &[Key], label: &str) -> R<Vec<(Key, PathProof)>> {
        let root = trie.hash();
        let mut out = Vec::new();
        for k in keys {
            let p = sess.prove(*k).map_err(|e| self.v("C05", "prove-error", format!("{label}: prove({}) failed: {e:#}", hex(k))))?;
            let verified = p.verify::<H>(k.view_bits::<Msb0>(), root)
                .map_err(|e| self.v("C05", "proof-does-not-verify", format!("{label}: proof for {} does not verify against the base root: {e:?}", hex(k))))?;
            match state.get(k) {
                Some(v) => {
                    let vh = self.hc.vh::<H>(k, *v);
                    let leaf = LeafData { key_path: *k, value_hash: vh };
                    match verified.confirm_value(&leaf) {
                        Ok(true) => {}
                        other => return Err(self.v("C05", "proof-untruthful", format!("{label}: confirm_value for present key {} = {:?}", hex(k), other.map_err(|_| "KeyOutOfScope")))),
                    }
                    if !matches!(verified.confirm_nonexistence(k), Ok(false)) {
                        return Err(self.v("C05", "proof-untruthful", format!("{label}: confirm_nonexistence true/err for present key {}", hex(k))));
                    }
                }
                None => {
                    match verified.confirm_nonexistence(k) {
                        Ok(true) => {}
                        other => return Err(self.v("C05", "proof-untruthful", format!("{label}: confirm_nonexistence for absent key {} = {:?}", hex(k), other.map_err(|_| "KeyOutOfScope")))),
                    }
                }
            }
            // shape
            let (term, sibs) = ref_proof(trie, k);
            let shape_ok = match (&p.terminal, &term) {
                (PathProofTerminal::Leaf(l), RefTerminal::Leaf { key, vh }) => &l.key_path == key && &l.value_hash == vh,
                (PathProofTerminal::Terminator(pos), RefTerminal::Terminator { depth }) => pos.depth() as usize == *depth && pos.path() == &k.view_bits::<Msb0>()[..*depth],
                _ => false,
            };
            if !shape_ok || p.siblings != sibs {
                return Err(self.v("C05", "proof-shape", format!("{label}: proof for {} has terminal {:?} / {} siblings, reference trie says {:?} / {} siblings", hex(k), p.terminal, p.siblings.len(), term, sibs.len())));
            }
            out.push((*k, p));
        }
        rep!(self).proofs_checked += keys.len() as u64;
        Ok(out)
    }

    /// C07: aggregate a subset of distinct, ordered path proofs; the multi-proof must verify and
    /// answer exactly as the individual proofs do.
    fn check_multiproof(&mut self, proofs: &[(Key, PathProof)], state: &State, trie: &RNode, sel: u64) -> R<()> {
        // distinct terminals, ordered by key path
        let mut by_path: BTreeMap<Vec<bool>, (Key, PathProof)> = BTreeMap::new();
        for (k, p) in proofs {
            let depth = p.siblings.len();
            let path: Vec<bool> = k.view_bits::<Msb0>()[..depth].iter().by_vals().collect();
            by_path.entry(path).or_insert((*k, p.clone()));
        }
        let mut chosen: Vec<(Key, PathProof)> = Vec::new();
        let mut x = sel;
        for (_, kp) in by_path.iter() {
            x = crate::rng::mix(x);
            if x % 3 != 0 { chosen.push(kp.clone()); }
        }
        if chosen.is_empty() { if let Some((_, kp)) = by_path.iter().next() { chosen.push(kp.clone()); } else { return Ok(()); } }
        chosen.sort_by(|a, b| a.0.cmp(&b.0));
        let root = trie.hash();
        let mp = MultiProof::from_path_proofs(chosen.iter().map(|(_, p)| p.clone()).collect());
        let vmp = proof::verify_multi_proof::<H>(&mp, root)
            .map_err(|e| self.v("C07", "multiproof-does-not-verify", format!("multi-proof over {} paths does not verify: {e:?}", chosen.len())))?;
        for (k, p) in &chosen {
            let single = p.verify::<H>(k.view_bits::<Msb0>(), root).map_err(|e| self.v("C05", "proof-does-not-verify", format!("{e:?}")))?;
            // probe keys: the key itself plus every model/probe key in scope of this path
            let depth = p.siblings.len();
            let mut qs: Vec<Key> = vec![*k];
            for q in self.check_keys() { if q.view_bits::<Msb0>()[..depth] == k.view_bits::<Msb0>()[..depth] && qs.len() < 6 { qs.push(q); } }
            for q in qs {
                let s_non = single.confirm_nonexistence(&q).map_err(|_| ());
                let m_non = vmp.confirm_nonexistence(&q).map_err(|_| ());
                if s_non != m_non {
                    return Err(self.v("C07", "multiproof-disagrees", format!("confirm_nonexistence({}) path proof = {:?}, multi-proof = {:?}", hex(&q), s_non, m_non)));
                }
                if let Ok(ix) = vmp.find_index_for(&q) {
                    let mi = vmp.confirm_nonexistence_with_index(&q, ix).map_err(|_| ());
                    if mi != s_non { return Err(self.v("C07", "multiproof-disagrees", format!("confirm_nonexistence_with_index({}) = {:?}, path proof = {:?}", hex(&q), mi, s_non))); }
                }
                let vh = match state.get(&q) { Some(v) => self.hc.vh::<H>(&q, *v), None => [0x5a; 32] };
                let leaf = LeafData { key_path: q, value_hash: vh };
                let s_val = single.confirm_value(&leaf).map_err(|_| ());
                let m_val = vmp.confirm_value(&leaf).map_err(|_| ());
                if s_val != m_val {
                    return Err(self.v("C07", "multiproof-disagrees", format!("confirm_value({}) path proof = {:?}, multi-proof = {:?}", hex(&q), s_val, m_val)));
                }
                if let Ok(ix) = vmp.find_index_for(&q) {
                    let mi = vmp.confirm_value_with_index(&leaf, ix).map_err(|_| ());
                    if mi != s_val { return Err(self.v("C07", "multiproof-disagrees", format!("confirm_value_with_index({}) = {:?}, path proof = {:?}", hex(&q), mi, s_val))); }
                }
                // truth
                if state.contains_key(&q) && s_val != Ok(true) && q == *k {
                    return Err(self.v("C07", "multiproof-untruthful", format!("present key {} not confirmed", hex(&q))));
                }
            }
        }
        // update half: a seeded write set in scope of the chosen terminals; the per-path verifier,
        // the multi-proof verifier and the reference trie over the updated set must agree
        {
            let mut r = crate::rng::Rng::new(sel ^ 0x7777);
            let mut new_state = state.clone();
            let mut by_terminal: BTreeMap<Vec<bool>, (proof::VerifiedPathProof, Vec<(Key, Option<[u8; 32]>)>)> = BTreeMap::new();
            for (k, p) in &chosen {
                let depth = p.siblings.len();
                let path: Vec<bool> = k.view_bits::<Msb0>()[..depth].iter().by_vals().collect();
                let single = p.verify::<H>(k.view_bits::<Msb0>(), root).map_err(|e| self.v("C05", "proof-does-not-verify", format!("{e:?}")))?;
                let entry = by_terminal.entry(path).or_insert_with(|| (single, Vec::new()));
                // the proven key itself, plus sometimes a fresh key under the same terminal
                let mut cands = vec![*k];
                if r.chance(1, 2) { let mut f = r.bytes32(); for i in 0..depth { crate::gen::set_bit(&mut f, i, crate::gen::get_bit(k, i)); } cands.push(f); }
                for c in cands {
                    if entry.1.iter().any(|(x, _)| *x == c) { continue; }
                    let v = if new_state.contains_key(&c) && r.chance(1, 3) { None } else { Some(VSpec { len: *r.pick(&[3u32, 40, 1400]), stamp: 0xE000_0000 + (r.next() as u32 & 0xffffff) }) };
                    match v { Some(v) => { new_state.insert(c, v); } None => { new_state.remove(&c); } }
                    entry.1.push((c, v.map(|v| self.hc.vh::<H>(&c, v))));
                }
            }
            let mut updates: Vec<PathUpdate> = Vec::new();
            let mut all_ops: Vec<(Key, Option<[u8; 32]>)> = Vec::new();
            for (_, (vp, mut ops)) in by_terminal { ops.sort_by(|a, b| a.0.cmp(&b.0)); all_ops.extend(ops.iter().cloned()); updates.push(PathUpdate { inner: vp, ops }); }
            updates.sort_by(|a, b| a.inner.path().cmp(b.inner.path()));
            all_ops.sort_by(|a, b| a.0.cmp(&b.0));
            let want = ref_trie::<H>(&new_state, &mut self.hc).hash();
            let per_path = proof::verify_update::<H>(root, &updates).map_err(|e| self.v("C07", "path-update-rejected", format!("verify_update over an in-scope write set failed: {e:?}")))?;
            if per_path != want { return Err(self.v("C07", "path-update-root", format!("verify_update = {}, reference trie over the updated set = {}", hex(&per_path), hex(&want)))); }
            let multi = proof::verify_multi_proof_update::<H>(&vmp, all_ops).map_err(|e| self.v("C07", "multiproof-update-rejected", format!("verify_multi_proof_update over an in-scope write set failed: {e:?}")))?;
            if multi != want { return Err(self.v("C07", "multiproof-update-root", format!("verify_multi_proof_update = {}, reference trie over the updated set = {}", hex(&multi), hex(&want)))); }
        }
        rep!(self).multiproofs_checked += 1;
        Ok(())
    }

    /// C06 (+ the update half of C07): stateless replay of a witness.
    fn check_witness(&mut self, w: &Witness, prev_root: [u8; 32], new_root: [u8; 32], prev: &State, items: &[(Key, Act)]) -> R<()> {
        let mut updates: Vec<PathUpdate> = Vec::new();
        let mut covered_reads: BTreeSet<Key> = BTreeSet::new();
        let mut covered_writes: BTreeSet<Key> = BTreeSet::new();
        let mut all_paths = Vec::new();
        for (i, wp) in w.path_proofs.iter().enumerate() {
            let verified = wp.inner.verify::<H>(wp.path.path(), prev_root)
                .map_err(|e| self.v("C06", "witness-path-does-not-verify", format!("witnessed path {i} does not verify against prev root: {e:?}")))?;
            for r in w.operations.reads.iter().filter(|r| r.path_index == i) {
                let want = prev.get(&r.key).map(|v| self.hc.vh::<H>(&r.key, *v));
                if r.value != want {
                    return Err(self.v("C06", "witness-read-value", format!("witnessed read of {} attests {:?}, session observed {:?}", hex(&r.key), r.value.map(|h| hex(&h)), want.map(|h| hex(&h)))));
                }
                let ok = match r.value {
                    None => verified.confirm_nonexistence(&r.key),
                    Some(vh) => verified.confirm_value(&LeafData { key_path: r.key, value_hash: vh }),
                };
                if !matches!(ok, Ok(true)) {
                    return Err(self.v("C06", "witness-read-not-confirmed", format!("witnessed read of {} is not confirmed by its path {i}: {:?}", hex(&r.key), ok.map_err(|_| "KeyOutOfScope"))));
                }
                covered_reads.insert(r.key);
            }
            let mut ops = Vec::new();
            for wr in w.operations.writes.iter().filter(|r| r.path_index == i) {
                ops.push((wr.key, wr.value));
                covered_writes.insert(wr.key);
            }
            all_paths.push((verified.clone(), ops.clone()));
            if !ops.is_empty() { updates.push(PathUpdate { inner: verified, ops }); }
        }
        for (k, a) in items {
            match a {
                Act::Read => if !covered_reads.contains(k) { return Err(self.v("C06", "witness-missing-read", format!("read key {} not in witness", hex(k)))); },
                Act::Write(v) | Act::Rtw(v) => {
                    if !covered_writes.contains(k) { return Err(self.v("C06", "witness-missing-write", format!("written key {} not covered by witness", hex(k)))); }
                    let want = v.map(|v| self.hc.vh::<H>(k, v));
                    let got = w.operations.writes.iter().find(|x| &x.key == k).unwrap().value;
                    if got != want { return Err(self.v("C06", "witness-write-value", format!("witnessed write of {} has wrong value hash", hex(k)))); }
                    if matches!(a, Act::Rtw(_)) && !covered_reads.contains(k) { return Err(self.v("C06", "witness-missing-read", format!("read-then-write key {} has no witnessed read", hex(k)))); }
                }
            }
        }
        updates.sort_by(|a, b| a.inner.path().cmp(b.inner.path()));
        let got = proof::verify_update::<H>(prev_root, &updates)
            .map_err(|e| self.v("C06", "witness-update-rejected", format!("verify_update over the witnessed writes failed: {e:?}")))?;
        if got != new_root {
            return Err(self.v("C06", "witness-update-root", format!("verify_update = {}, store reports {}", hex(&got), hex(&new_root))));
        }
        rep!(self).witnesses_checked += 1;
        if self.scen.checks.multiproof && !w.path_proofs.is_empty() {
            // C07 update half: same paths aggregated, same write set.
            let mut pps: Vec<_> = w.path_proofs.iter().map(|p| (p.path.path().to_bitvec(), p.inner.clone())).collect();
            pps.sort_by(|a, b| a.0.cmp(&b.0));
            let mp = MultiProof::from_path_proofs(pps.into_iter().map(|x| x.1).collect());
            let vmp = proof::verify_multi_proof::<H>(&mp, prev_root)
                .map_err(|e| self.v("C07", "multiproof-does-not-verify", format!("multi-proof over witness paths does not verify: {e:?}")))?;
            let mut ops: Vec<(Key, Option<[u8; 32]>)> = w.operations.writes.iter().map(|x| (x.key, x.value)).collect();
            ops.sort_by(|a, b| a.0.cmp(&b.0));
            if !ops.is_empty() {
                let got = proof::verify_multi_proof_update::<H>(&vmp, ops)
                    .map_err(|e| self.v("C07", "multiproof-update-rejected", format!("verify_multi_proof_update failed: {e:?}")))?;
                if got != new_root {
                    return Err(self.v("C07", "multiproof-update-root", format!("verify_multi_proof_update = {}, store = {}", hex(&got), hex(&new_root))));
                }
            }
            rep!(self).multiproofs_checked += 1;
        }
        Ok(())
    }

    /// The uncommitted-ancestor chain of overlay `id`, newest first; Err if some uncommitted
    /// ancestor is gone (dropped or consumed by a rejected commit) — then the API must refuse.
    fn chain(&self, id: usize) -> Result<Vec<usize>, ()> {
        let mut out = Vec::new();
        let mut cur = Some(id);
        while let Some(i) = cur {
            let n = &self.overlays[&i];
            match n.status {
                OvStatus::Committed => break,
                OvStatus::Dropped => return Err(()),
                OvStatus::Live => { if n.overlay.is_none() { return Err(()); } out.push(i); }
            }
            cur = n.parent;
        }
        Ok(out)
    }

    /// An overlay chain is only meaningful while the state its oldest uncommitted member was built
    /// on is still the committed state; once a competing commit or rollback landed it is an
    /// abandoned fork: it may be committed (must be rejected) or dropped, but reading through it
    /// is outside the API's contract (nomt does not detect it) and is not attempted.
    fn fork_valid(&self, id: usize) -> bool {
        match self.chain(id) {
            Ok(ch) => match ch.last() { Some(oldest) => crate::model::same_state(&self.overlays[oldest].base, &self.model.cur), None => crate::model::same_state(&self.overlays[&id].state, &self.model.cur) },
            Err(()) => true, // incomplete chains are handled (refusal expected) by run_session
        }
    }

    /// Run a session for `batch` on top of `base` (committed state or overlay chain) up to `finish`.
    fn run_session(&mut self, batch: &Batch, parent: Option<usize>) -> R<Option<(nomt::FinishedSession, State, Vec<(Key, Option<VSpec>)>, [u8; 32])>> {
        let (base_state, chain) = match parent {
            None => (self.model.cur.clone(), Ok(vec![])),
            Some(p) => (self.overlays[&p].state.clone(), self.chain(p)),
        };
        let mut params = SessionParams::default();
        if batch.witness { params = params.witness_mode(WitnessMode::read_write()); }
        if let Some(_p) = parent {
            let ids = chain.clone().unwrap_or_else(|_| {
                // supply what is still there: the API must refuse
                let mut v = Vec::new();
                let mut cur = parent;
                while let Some(i) = cur { let n = &self.overlays[&i]; if n.overlay.is_some() && n.status == OvStatus::Live { v.push(i); } if n.status == OvStatus::Committed { break; } cur = n.parent; }
                v
            });
            let refs: Vec<&Overlay> = ids.iter().map(|i| self.overlays[i].overlay.as_ref().unwrap()).collect();
            match (params.overlay(refs), &chain) {
                (Ok(p), Ok(_)) => params = p,
                (Err(e), Ok(_)) => return Err(self.v("C11", "overlay-chain-refused", format!("complete ancestor chain refused: {e:?}"))),
                (Err(_), Err(())) => return Ok(None),
                (Ok(_), Err(())) => return Err(self.v("C11", "overlay-incomplete-chain-accepted", format!("session on overlay {:?} accepted although an uncommitted ancestor is gone", parent))),
            }
        }
        let base_trie = ref_trie::<H>(&base_state, &mut self.hc);
        let prev_root = base_trie.hash();
        let sess = SessGuard::new(self.nomt().begin_session(params), self.opts.warm_up);
        if sess.prev_root().into_inner() != prev_root {
            return Err(self.v(if parent.is_some() { "C11" } else { "C02" }, "root-mismatch", format!("Session::prev_root = {}, reference trie = {}", hex(&sess.prev_root().into_inner()), hex(&prev_root))));
        }
        for k in &batch.warm { sess.warm_up(k.0); }
        for k in &batch.preserve { sess.preserve_prior_value(k.0); }
        for k in &batch.reads {
            let got = sess.read(k.0).map_err(|e| self.v("C01", "read-error", format!("{e:#}")))?;
            let want = base_state.get(&k.0).map(|v| value_bytes(&k.0, *v));
            if got != want {
                return Err(self.v(if parent.is_some() { "C11" } else { "C01" }, "value-mismatch", format!("Session::read({}) = {}, model = {}", hex(&k.0), dv(&got), dv(&want))));
            }
            rep!(self).reads_checked += 1;
        }
        if !batch.proves.is_empty() {
            let keys: Vec<Key> = batch.proves.iter().map(|k| k.0).collect();
            let proofs = self.check_proofs(&sess, &base_state, &base_trie, &keys, if parent.is_some() { "overlay session" } else { "session" })?;
            if self.scen.checks.multiproof { self.check_multiproof(&proofs, &base_state, &base_trie, self.scen.run_seed ^ self.step as u64)?; }
        }
        let mut actuals = Vec::new();
        let mut writes = Vec::new();
        let mut new_state = base_state.clone();
        for (k, a) in &batch.items {
            let cur = base_state.get(&k.0).map(|v| value_bytes(&k.0, *v));
            match a {
                Act::Read => actuals.push((k.0, KeyReadWrite::Read(cur))),
                Act::Write(v) => { actuals.push((k.0, KeyReadWrite::Write(v.map(|v| value_bytes(&k.0, v))))); writes.push((k.0, *v)); }
                Act::Rtw(v) => { actuals.push((k.0, KeyReadWrite::ReadThenWrite(cur, v.map(|v| value_bytes(&k.0, v))))); writes.push((k.0, *v)); }
            }
        }
        for (k, v) in &writes { match v { Some(v) => { new_state.insert(*k, *v); } None => { new_state.remove(k); } } }
        let mut fin = sess.into_inner().finish(actuals).map_err(|e| self.v(&self.prop.clone(), "finish-error", format!("Session::finish failed: {e:#}")))?;
        let new_trie_root = ref_trie::<H>(&new_state, &mut self.hc).hash();
        if self.scen.checks.root && fin.root().into_inner() != new_trie_root {
            return Err(self.v("C02", "root-mismatch", format!("FinishedSession::root = {}, reference trie over {} pairs = {}", hex(&fin.root().into_inner()), new_state.len(), hex(&new_trie_root))));
        }
        if batch.witness && self.scen.checks.witness {
            match fin.take_witness() {
                None => return Err(self.v("C06", "witness-missing", "witness mode on but no witness produced".into())),
                Some(w) => {
                    let items: Vec<(Key, Act)> = batch.items.iter().map(|(k, a)| (k.0, a.clone())).collect();
                    self.check_witness(&w, prev_root, fin.root().into_inner(), &base_state, &items)?
                }
            }
        }
        Ok(Some((fin, new_state, writes, new_trie_root)))
    }

    fn after_commit_checks(&mut self) -> R<()> {
        self.invalidate();
        let st = self.model.cur.clone();
        if self.scen.checks.root {
            let want = self.trie().hash();
            let got = self.nomt().root().into_inner();
            if got != want { return Err(self.v("C02", "root-mismatch", format!("Nomt::root = {}, reference trie over {} pairs = {}", hex(&got), st.len(), hex(&want)))); }
        }
        if self.model.seqn != self.nomt().sync_seqn() && std::env::var("SIM_NO_SEQN").is_err() {
            return Err(self.v(&self.prop.clone(), "seqn-mismatch", format!("sync_seqn = {}, model = {}", self.nomt().sync_seqn(), self.model.seqn)));
        }
        if self.scen.checks.values { self.check_values(&st, None)?; }
        if self.scen.checks.proofs {
            let keys = self.proof_sample();
            let trie = ref_trie::<H>(&st, &mut self.hc);
            let sess = SessGuard::new(self.nomt().begin_session(SessionParams::default()), self.opts.warm_up);
            let proofs = self.check_proofs(&sess, &st, &trie, &keys, "post-commit session")?;
            if self.scen.checks.multiproof { self.check_multiproof(&proofs, &st, &trie, self.scen.run_seed.wrapping_add(self.step as u64))?; }
        }
        if self.scen.checks.decode || self.scen.checks.accounting { self.check_decode()?; }
        if self.scen.checks.rules && std::env::var("SIM_NO_RULES").is_err() { self.check_rules()?; }
        if let Some(every) = self.scen.extra.get("rollback_history_every").and_then(|x| x.as_u64()) {
            if every > 0 && (self.step as u64 + 1) % every == 0 { let p = self.prop.clone(); self.check_rollback_history(&p)?; }
        }
        Ok(())
    }

    /// C04 ordering rules over the I/O trace of the step that just finished.
    pub fn check_rules(&mut self) -> R<()> {
        let main = self.disk.main_dir_id();
        let tr: Vec<crate::disk::EventRec> = self.disk.trace().into_iter().filter(|e| e.step == self.step && e.dir == main).collect();
        match crate::rules::check_sync_rules(&tr) {
            Ok(n) => { rep!(self).rules_checked += n; Ok(()) }
            Err((class, detail)) => Err(self.v("C04", &class, detail)),
        }
    }

    fn proof_sample(&self) -> Vec<Key> {
        let keys = self.check_keys();
        if keys.len() <= 24 { return keys; }
        let mut r = crate::rng::Rng::new(self.scen.run_seed ^ (self.step as u64) << 32);
        (0..24).map(|_| keys[r.usize(keys.len())]).collect::<BTreeSet<_>>().into_iter().collect()
    }

    pub fn check_decode(&mut self) -> R<()> {
        let st = self.model.cur.clone();
        let trie = ref_trie::<H>(&st, &mut self.hc);
        let occupied = self.nomt().hash_table_utilization().occupied;
        let img = crate::decoder::decode(&self.dir).map_err(|e| self.v("C16", "decode-failed", e))?;
        let expect = crate::decoder::Expect { state: &st, trie: &trie, hc_vh: &mut |k, v| self.hc.vh::<H>(k, v), seqn: self.model.seqn };
        if self.scen.checks.decode {
            crate::decoder::check_image::<H>(&img, expect).map_err(|(class, e)| self.v("C16", &class, e))?;
        }
        if self.scen.checks.accounting {
            crate::decoder::check_accounting(&img).map_err(|(class, e)| self.v("C19", &class, e))?;
            if img.ht_full != occupied {
                return Err(self.v("C19", "occupancy-mismatch", format!("hash_table_utilization().occupied = {}, full buckets on disk = {}", occupied, img.ht_full)));
            }
            if st.is_empty() && occupied != 0 {
                return Err(self.v("C19", "occupancy-nonzero-when-empty", format!("store is empty but occupied = {occupied}")));
            }
            if st.is_empty() && self.model.seqn > 0 && self.scen.extra.get("c19_cycles").and_then(|x| x.as_bool()).unwrap_or(false) {
                // Fill / overwrite / empty cycles whose fills alternate between two fixed layouts
                // (same keys; per key a fixed length in layout A and another in layout B, so values
                // migrate between in-leaf and overflow form). Cycles 0 and 1 warm up, cycles 2 and 3
                // are the steady state of each layout: from cycle 4 on the frontier after deleting
                // everything must not exceed the larger of those two, up to free-list bookkeeping
                // slack (one free-list page per 1022 freed pages, rewritten copy-on-write).
                self.empty_bumps.push((img.meta.ln_bump, img.meta.bbn_bump));
                let n = self.empty_bumps.len();
                if n >= 5 {
                    let l = self.empty_bumps[2].0.max(self.empty_bumps[3].0);
                    let bb = self.empty_bumps[2].1.max(self.empty_bumps[3].1);
                    let (ln, bn) = self.empty_bumps[n - 1];
                    let slack = |base: u32| 8 + base / 64;
                    if ln > l + slack(l) || bn > bb + slack(bb) {
                        return Err(self.v("C19", "frontier-keeps-growing", format!("frontier (ln bump, bbn bump) after each emptying: {:?}; cycle {} exceeds the steady state of cycles 2/3 by more than the free-list slack", self.empty_bumps, n - 1)));
                    }
                }
                *rep!(self).probes.entry("c19.empty_points".into()).or_default() += 1;
            }
        }
        rep!(self).decodes += 1;
        Ok(())
    }

    /// What rollback(1..=retained) would restore, probed on copies of the directory.
    pub fn check_rollback_history(&mut self, prop: &str) -> R<()> {
        if !self.opts.rollback { return Ok(()); }
        // every n while the window is small; with a long window the ends and the middle (each
        // probe is a copy of the directory, an open and a rollback)
        let r = self.model.retained;
        let ns: Vec<usize> = if r <= 6 { (1..=r).collect() } else { vec![1, 2, 3, r / 2, r - 1, r] };
        for n in ns {
            let img = self.disk.fork_live_copy(&self.dir, &format!("rbh{}-{}", self.step, n));
            let res = (|| -> R<()> {
                // the twin only probes what the directory holds: a cheap configuration (few tasks)
                let mut topts = self.opts.clone();
                topts.commit_concurrency = topts.commit_concurrency.min(2); topts.io_workers = 1; topts.warm_up = false;
                let twin = Nomt::<H>::open(to_options(&img, &topts)).map_err(|e| self.v(prop, "twin-open-failed", format!("copy of the directory does not open: {e:#}")))?;
                twin.rollback(n).map_err(|e| self.v(prop, "rollback-history", format!("rollback({n}) on a copy failed although {} deltas must be retained: {e:#}", self.model.retained)))?;
                let want = self.model.back(n).unwrap().clone();
                let wt = ref_trie::<H>(&want, &mut self.hc).hash();
                if twin.root().into_inner() != wt {
                    return Err(self.v(prop, "rollback-history", format!("rollback({n}) on a copy restores root {}, model state {n} commits back has root {}", hex(&twin.root().into_inner()), hex(&wt))));
                }
                for k in self.check_keys() {
                    let got = twin.read(k).map_err(|e| self.v(prop, "read-error", format!("{e:#}")))?;
                    let w = want.get(&k).map(|v| value_bytes(&k, *v));
                    if got != w { return Err(self.v(prop, "rollback-history", format!("after rollback({n}) on a copy, read({}) = {}, model = {}", hex(&k), dv(&got), dv(&w)))); }
                }
                drop(twin);
                Ok(())
            })();
            self.disk.forget(&img);
            let _ = std::fs::remove_dir_all(&img);
            res?;
        }
        Ok(())
    }

    /// C17: no region the previous durable image references is touched before the switch-over
    /// record of this sync is durable.
    fn check_intact(&mut self, before: &crate::decoder::LiveSet) -> R<()> {
        let main = self.disk.main_dir_id();
        let tr: Vec<crate::disk::EventRec> = self.disk.trace().into_iter().filter(|e| e.step == self.step && e.dir == main && !e.failed && !matches!(e.kind, 'L' | 'U')).collect();
        let Some(mf) = tr.iter().position(|e| e.site == "meta.fsync") else { return Ok(()) };
        for e in &tr[..=mf] {
            let page = (e.off / 4096) as u32;
            let bad: Option<String> = match (e.file.as_str(), e.kind) {
                ("ln", 'w') if before.ln.contains(&page) => Some(format!("write to ln page {page}, which the previous image references")),
                ("bbn", 'w') if before.bbn.contains(&page) => Some(format!("write to bbn page {page}, which the previous image references")),
                ("ln", 'l') if (e.off / 4096) < before.ln_bump as u64 => Some(format!("ln resized to {} pages, below the previous frontier {}", e.off / 4096, before.ln_bump)),
                ("bbn", 'l') if (e.off / 4096) < before.bbn_bump as u64 => Some(format!("bbn resized to {} pages, below the previous frontier {}", e.off / 4096, before.bbn_bump)),
                ("ht", 'w') | ("ht", 'l') | ("ht", 'u') => Some(format!("{} on the hash-table file (page {page}) before the switch-over", e.site)),
                (f, 'u') if before.rb_live.iter().any(|(n, _)| n == f) => Some(format!("unlink of rollback segment {f}, which holds live records")),
                (f, 'l') if before.rb_live.iter().any(|(n, len)| n == f && e.off < *len) => Some(format!("rollback segment {f} truncated to {} bytes, below its previous extent", e.off)),
                (f, 'w') if f.starts_with("rollback.") => Some(format!("in-place write to rollback segment {f}")),
                _ => None,
            };
            if let Some(b) = bad { return Err(self.v("C17", "live-region-touched-before-switch", format!("event {} ({}): {b}; the meta fsync is event {}", e.ev, e.site, tr[mf].ev))); }
        }
        rep!(self).rules_checked += 1;
        Ok(())
    }

    pub fn step(&mut self, i: usize, st: &Step) -> R<()> {
        self.step = i;
        self.disk.begin_step(i);
        let live_before = if self.scen.checks.intact && matches!(st, Step::Commit { .. } | Step::DeleteAll { .. } | Step::OvCommit { .. } | Step::Rollback { .. } | Step::CommitPrepared { .. }) {
            let img = crate::decoder::decode(&self.dir).map_err(|e| self.v("C16", "decode-failed", e))?;
            if std::env::var("SIM_DEBUG_C17").is_ok() { eprintln!("STEP {i}: ln bump {} used {} list_pages {:?} free {} ; bbn bump {} used {} list_pages {:?}", img.meta.ln_bump, img.ln.used.len(), img.ln.list_pages, img.ln.free.len(), img.meta.bbn_bump, img.bbn.used.len(), img.bbn.list_pages); }
            Some(crate::decoder::live_set(&img))
        } else { None };
        let r = self.step_inner(i, st);
        if r.is_ok() { if let Some(b) = live_before { self.check_intact(&b)?; } }
        r
    }

    fn step_inner(&mut self, i: usize, st: &Step) -> R<()> {
        if let Step::DeleteAll { keep } = st {
            let keys: Vec<Key> = self.model.cur.keys().cloned().collect();
            let n = keys.len().saturating_sub(*keep);
            let batch = Batch { items: keys.into_iter().take(n).map(|k| (K(k), Act::Write(None))).collect(), ..Default::default() };
            return self.step_inner(i, &Step::Commit { batch, nonblocking: false });
        }
        let prop = self.prop.clone();
        match st {
            Step::Commit { batch, nonblocking } => {
                let Some((fin, new_state, writes, new_root)) = self.run_session(batch, None)? else { unreachable!() };
                self.snap(new_state.clone(), true);
                let res = if *nonblocking {
                    match fin.try_commit_nonblocking(self.nomt()) {
                        Ok(None) => Ok(()),
                        Ok(Some(_)) => return Err(self.v("C15", "nonblocking-handed-back", "try_commit_nonblocking handed the changeset back although no session is alive".into())),
                        Err(e) => Err(e),
                    }
                } else { fin.commit(self.nomt()) };
                let _ = new_root;
                if let Err(e) = res { self.op_failed(e, new_state)?; rep!(self).steps_done = i + 1; return Ok(()); }
                self.swallowed()?;
                self.snap_ok();
                self.model.commit(&writes);
                self.last_committed_overlay = None;
                rep!(self).commits += 1;
                self.after_commit_checks()?;
            }
            Step::OvBuild { id, parent, batch } => {
                if let Some(p) = parent {
                    if !self.overlays.contains_key(p) || !self.fork_valid(*p) { rep!(self).notes.push(format!("step {i}: parent overlay missing or an abandoned fork; not built upon")); rep!(self).steps_done = i + 1; return Ok(()); }
                    // the parent object itself is gone (dropped, or consumed by a rejected commit
                    // attempt): there is nothing to build on. Supplying only its ancestors would be
                    // a complete chain for a *different* base, which the API rightly accepts; the
                    // refusal test below is for a missing link in the middle of a chain.
                    let pn = &self.overlays[p];
                    if pn.status != OvStatus::Committed && pn.overlay.is_none() { rep!(self).notes.push(format!("step {i}: parent overlay object is gone; not built upon")); rep!(self).steps_done = i + 1; return Ok(()); }
                }
                match self.run_session(batch, *parent)? {
                    None => { rep!(self).notes.push(format!("step {i}: overlay build refused as expected")); }
                    Some((fin, new_state, writes, new_root)) => {
                        let ov = fin.into_overlay();
                        if ov.root().into_inner() != new_root {
                            return Err(self.v("C02", "root-mismatch", format!("Overlay::root = {}, reference = {}", hex(&ov.root().into_inner()), hex(&new_root))));
                        }
                        let base = match parent { None => self.model.cur.clone(), Some(p) => self.overlays[p].state.clone() };
                        self.overlays.insert(*id, OvNode { overlay: Some(ov), parent: *parent, base, state: new_state, writes, status: OvStatus::Live, consumed: false });
                        // a session on the new chain must see exactly "chain committed"
                        if self.scen.checks.values || self.scen.checks.proofs { self.check_overlay_view(*id)?; }
                    }
                }
            }
            Step::OvCommit { id, nonblocking } => {
                let Some(node) = self.overlays.get_mut(id) else { return Ok(()); };
                let Some(ov) = node.overlay.take() else { return Ok(()); };
                if node.status != OvStatus::Live { return Ok(()); }
                let parent = node.parent;
                // expected verdict
                let parent_ok = match parent {
                    None => true,
                    Some(p) => self.overlays[&p].status == OvStatus::Committed && self.last_committed_overlay == Some(p),
                };
                let node_state_base_matches = crate::model::same_state(&self.overlays[id].base, &self.model.cur);
                let expect_ok = parent_ok && node_state_base_matches;
                if expect_ok { let ns = self.overlays[id].state.clone(); self.snap(ns, true); }
                let res = if *nonblocking {
                    match ov.try_commit_nonblocking(self.nomt()) {
                        Ok(None) => Ok(()),
                        Ok(Some(_)) => return Err(self.v("C15", "nonblocking-handed-back", "Overlay::try_commit_nonblocking handed the overlay back although no session is alive".into())),
                        Err(e) => Err(e),
                    }
                } else { ov.commit(self.nomt()) };
                if let (Err(_), true) = (&res, expect_ok) {
                    if self.disk.delivered_errors().iter().any(|(st, _)| *st == i) || format!("{:#}", res.as_ref().unwrap_err()).contains("bucket exhaustion") {
                        let ns = self.overlays[id].state.clone();
                        self.op_failed(res.unwrap_err(), ns)?; rep!(self).steps_done = i + 1; return Ok(());
                    }
                }
                match (res, expect_ok) {
                    (Ok(()), true) => {
                        self.swallowed()?;
                        self.snap_ok();
                        let writes = self.overlays[id].writes.clone();
                        self.overlays.get_mut(id).unwrap().status = OvStatus::Committed;
                        self.model.commit(&writes);
                        self.last_committed_overlay = Some(*id);
                        rep!(self).commits += 1;
                        self.after_commit_checks()?;
                    }
                    (Err(_), false) => {
                        let n = self.overlays.get_mut(id).unwrap();
                        n.consumed = true;
                        n.status = OvStatus::Dropped;
                        rep!(self).notes.push(format!("step {i}: overlay commit rejected as expected"));
                        // C12: nothing changed
                        self.no_effect_checks()?;
                    }
                    (Ok(()), false) => return Err(self.v("C12", "stale-commit-accepted", format!("commit of overlay {id} accepted although its base is no longer the current state / its parent is not the last commit"))),
                    (Err(e), true) => return Err(self.v("C11", "overlay-commit-rejected", format!("in-order overlay commit rejected: {e:#}"))),
                }
            }
            Step::DeleteAll { .. } => unreachable!("expanded above"),
            Step::OvDrop { id } => {
                if let Some(n) = self.overlays.get_mut(id) {
                    if n.status == OvStatus::Live { n.overlay = None; n.status = OvStatus::Dropped; }
                }
            }
            Step::Rollback { n } => {
                let can = self.opts.rollback && *n <= self.model.retained && *n <= self.model.history.len();
                let before_root = self.nomt().root().into_inner();
                if can { let ns = self.model.back(*n).unwrap().clone(); self.snap(ns, true); }
                let res = self.nomt().rollback(*n);
                if let (Err(_), true) = (&res, can) {
                    if self.disk.delivered_errors().iter().any(|(st, _)| *st == i) {
                        let ns = self.model.back(*n).unwrap().clone();
                        self.op_failed(res.unwrap_err(), ns)?; rep!(self).steps_done = i + 1; return Ok(());
                    }
                }
                match res {
                    Ok(()) => {
                        self.swallowed()?;
                        self.snap_ok();
                        if !self.opts.rollback { return Err(self.v("C09", "rollback-when-disabled", "rollback succeeded although disabled".into())); }
                        if *n > self.model.history.len() {
                            return Err(self.v("C09", "rollback-beyond-history", format!("rollback({n}) succeeded but only {} commits were ever made", self.model.history.len())));
                        }
                        self.model.rollback(*n);
                        self.last_committed_overlay = None;
                        rep!(self).commits += 1;
                        self.after_commit_checks().map_err(|Viol(mut v)| { if v.property == "C01" || v.property == "C02" { v.property = "C09".into(); v.class = format!("rollback-{}", v.class); } Viol(v) })?;
                    }
                    Err(e) => {
                        if can { return Err(self.v("C09", "rollback-refused", format!("rollback({n}) failed although {} deltas are retained: {e:#}", self.model.retained))); }
                        // must not have changed anything, and must not poison
                        if self.nomt().root().into_inner() != before_root { return Err(self.v("C09", "failed-rollback-changed-state", "root changed by a failed rollback".into())); }
                        if self.nomt().is_poisoned() { return Err(self.v("C09", "failed-rollback-poisoned", format!("an unservable rollback({n}) poisoned the handle: {e:#}"))); }
                        self.no_effect_checks()?;
                    }
                }
            }
            Step::Prepare { id, batch } => {
                let base = self.model.cur.clone();
                let Some((fin, new_state, writes, _)) = self.run_session(batch, None)? else { unreachable!() };
                self.prepared.insert(*id, (fin, base, new_state, writes));
            }
            Step::DropPrepared { id } => { self.prepared.remove(id); }
            Step::CommitPrepared { id, nonblocking } => {
                let Some((fin, base, new_state, writes)) = self.prepared.remove(id) else { rep!(self).steps_done = i + 1; return Ok(()); };
                let expect_ok = crate::model::same_state(&base, &self.model.cur);
                if expect_ok { self.snap(new_state.clone(), true); }
                let res = if *nonblocking {
                    match fin.try_commit_nonblocking(self.nomt()) {
                        Ok(None) => Ok(()),
                        Ok(Some(_)) => return Err(self.v("C15", "nonblocking-handed-back", "try_commit_nonblocking handed the changeset back although no session is alive".into())),
                        Err(e) => Err(e),
                    }
                } else { fin.commit(self.nomt()) };
                match (res, expect_ok) {
                    (Ok(()), true) => {
                        self.swallowed()?;
                        self.snap_ok();
                        self.model.commit(&writes);
                        self.last_committed_overlay = None;
                        rep!(self).commits += 1;
                        self.after_commit_checks()?;
                    }
                    (Err(e), true) => { self.op_failed(e, new_state)?; }
                    (Err(_), false) => {
                        rep!(self).notes.push(format!("step {i}: stale changeset rejected as expected"));
                        if self.nomt().is_poisoned() { return Err(self.v("C12", "rejected-attempt-poisoned", "a rejected stale commit poisoned the handle".into())); }
                        self.no_effect_checks()?;
                    }
                    (Ok(()), false) => return Err(self.v("C12", "stale-commit-accepted", format!("commit of prepared changeset {id} accepted although its base is no longer the current state"))),
                }
            }
            Step::TryWhileSession { id, overlay } => {
                let holder = SessGuard::new(self.nomt.as_ref().unwrap().begin_session(SessionParams::default()), self.opts.warm_up);
                if *overlay {
                    let Some(node) = self.overlays.get_mut(id) else { rep!(self).steps_done = i + 1; return Ok(()); };
                    if node.status != OvStatus::Live { rep!(self).steps_done = i + 1; return Ok(()); }
                    let Some(ov) = node.overlay.take() else { rep!(self).steps_done = i + 1; return Ok(()); };
                    match ov.try_commit_nonblocking(self.nomt.as_ref().unwrap()) {
                        Ok(Some(back)) => { self.overlays.get_mut(id).unwrap().overlay = Some(back); }
                        Ok(None) => return Err(self.v("C12", "nonblocking-commit-with-live-session", "Overlay::try_commit_nonblocking committed although a session was alive for the whole call".into())),
                        Err(_) => { let n = self.overlays.get_mut(id).unwrap(); n.consumed = true; n.status = OvStatus::Dropped; }
                    }
                } else {
                    let Some((fin, base, new_state, writes)) = self.prepared.remove(id) else { rep!(self).steps_done = i + 1; return Ok(()); };
                    match fin.try_commit_nonblocking(self.nomt.as_ref().unwrap()) {
                        Ok(Some(back)) => { self.prepared.insert(*id, (back, base, new_state, writes)); }
                        Ok(None) => return Err(self.v("C12", "nonblocking-commit-with-live-session", "try_commit_nonblocking committed although a session was alive for the whole call".into())),
                        Err(_) => {}
                    }
                }
                // the holder still sees its state; then nothing may have changed
                { let st = self.model.cur.clone(); self.check_values(&st, Some(&holder)).map_err(|Viol(mut v)| { v.property = "C12".into(); v.class = format!("deferred-attempt-{}", v.class); Viol(v) })?; }
                drop(holder);
                self.no_effect_checks()?;
            }
            Step::Reopen { opts } => {
                self.prepared.clear();
                let pre = self.observe_all()?;
                // overlays do not survive a handle (their commit-order marker is per handle)
                for (_, n) in self.overlays.iter_mut() { if n.status == OvStatus::Live { n.overlay = None; n.status = OvStatus::Dropped; } }
                let h = self.nomt.take().unwrap();
                drop(h);
                self.opts = opts.clone();
                { let st = self.model.cur.clone(); self.snap(st, false); }
                self.model.max_log = opts.max_rollback_log_len as usize;
                self.model.rollback_enabled = opts.rollback;
                self.model.retained = if opts.rollback { self.model.retained.min(self.model.max_log) } else { 0 };
                self.last_committed_overlay = None;
                self.open().map_err(|Viol(mut v)| { v.property = if prop == "C09" { "C09".into() } else { "C10".into() }; v.class = "reopen-failed".into(); Viol(v) })?;
                let post = self.observe_all()?;
                if self.scen.checks.reopen_equal && pre != post {
                    return Err(self.v("C10", "reopen-changed-observation", format!("observation differs across reopen: {}", pre.diff(&post))));
                }
                self.after_commit_checks().map_err(|Viol(mut v)| { if v.property == "C01" || v.property == "C02" || v.property == "C05" { v.class = format!("reopen-{}", v.class); v.property = "C10".into(); } Viol(v) })?;
            }
        }
        rep!(self).steps_done = i + 1;
        Ok(())
    }

    fn check_overlay_view(&mut self, id: usize) -> R<()> {
        let Ok(chain) = self.chain(id) else { return Ok(()) };
        let state = self.overlays[&id].state.clone();
        let trie = ref_trie::<H>(&state, &mut self.hc);
        let refs: Vec<&Overlay> = chain.iter().map(|i| self.overlays[i].overlay.as_ref().unwrap()).collect();
        let params = SessionParams::default().overlay(refs).map_err(|e| self.v("C11", "overlay-chain-refused", format!("{e:?}")))?;
        let nomt = self.nomt.as_ref().unwrap();
        let sess = SessGuard::new(nomt.begin_session(params), self.opts.warm_up);
        if sess.prev_root().into_inner() != trie.hash() {
            return Err(self.v("C11", "root-mismatch", format!("overlay session prev_root = {}, model of chain-committed = {}", hex(&sess.prev_root().into_inner()), hex(&trie.hash()))));
        }
        let keys = self.check_keys();
        let mut extra: Vec<Key> = state.keys().cloned().collect();
        extra.extend(keys);
        extra.sort(); extra.dedup();
        if self.scen.checks.values {
            for k in &extra {
                let got = sess.read(*k).map_err(|e| self.v("C11", "read-error", format!("{e:#}")))?;
                let want = state.get(k).map(|v| value_bytes(k, *v));
                if got != want { return Err(self.v("C11", "value-mismatch", format!("overlay session read({}) = {}, model = {}", hex(k), dv(&got), dv(&want)))); }
            }
            rep!(self).reads_checked += extra.len() as u64;
        }
        if self.scen.checks.proofs {
            // the probes (keys the scenario cares about) plus an even spread over everything else
            let mut sample: Vec<Key> = self.scen.probes.iter().take(10).map(|k| k.0).collect();
            let stride = (extra.len() / 12).max(1);
            sample.extend(extra.iter().step_by(stride).take(14).cloned());
            sample.sort(); sample.dedup();
            let tag = if self.prop == "C05" { "C05" } else { "C11" };
            self.check_proofs(&sess, &state, &trie, &sample, "overlay session").map_err(|Viol(mut v)| { v.property = tag.into(); Viol(v) })?;
        }
        Ok(())
    }

    /// After a rejected / deferred attempt: everything observable equals the model (which did not move).
    fn no_effect_checks(&mut self) -> R<()> {
        let tag = |Viol(mut v): Viol| { v.class = format!("rejected-attempt-{}", v.class); v.property = "C12".into(); Viol(v) };
        self.invalidate();
        let st = self.model.cur.clone();
        let want = self.trie().hash();
        let got = self.nomt().root().into_inner();
        if got != want { return Err(self.v("C12", "rejected-attempt-root", format!("root after a rejected attempt = {}, expected unchanged {}", hex(&got), hex(&want)))); }
        if self.model.seqn != self.nomt().sync_seqn() { return Err(self.v("C12", "rejected-attempt-seqn", format!("sync_seqn = {} after a rejected attempt, expected {}", self.nomt().sync_seqn(), self.model.seqn))); }
        self.check_values(&st, None).map_err(tag)?;
        self.check_rollback_history("C12")?;
        Ok(())
    }

    fn observe_all(&mut self) -> R<Observation> {
        let nomt = self.nomt.as_ref().unwrap();
        let mut vals = BTreeMap::new();
        for k in self.check_keys() {
            let got = nomt.read(k).map_err(|e| self.v("C10", "read-error", format!("{e:#}")))?;
            vals.insert(k, got.map(|v| crate::rng::mix(v.len() as u64) ^ fold(&v)));
        }
        Ok(Observation { root: nomt.root().into_inner(), seqn: nomt.sync_seqn(), occupied: nomt.hash_table_utilization().occupied, vals })
    }

    pub fn run_steps(&mut self) -> R<()> {
        self.open()?;
        self.disk.adopt(&self.dir);
        let steps = self.scen.steps.clone();
        for (i, st) in steps.iter().enumerate() { self.step(i, st)?; }
        Ok(())
    }
}

#[derive(PartialEq, Debug)]
pub struct Observation { root: [u8; 32], seqn: u32, occupied: usize, vals: BTreeMap<Key, Option<u64>> }
impl Observation {
    fn diff(&self, o: &Observation) -> String {
        if self.root != o.root { return format!("root {} -> {}", hex(&self.root), hex(&o.root)); }
        if self.seqn != o.seqn { return format!("sync_seqn {} -> {}", self.seqn, o.seqn); }
        if self.occupied != o.occupied { return format!("hash-table occupied {} -> {}", self.occupied, o.occupied); }
        for (k, v) in &self.vals { if o.vals.get(k) != Some(v) { return format!("value of {}", hex(k)); } }
        "?".into()
    }
}
fn fold(v: &[u8]) -> u64 { let mut h = 0xcbf29ce484222325u64; for b in v { h = (h ^ *b as u64).wrapping_mul(0x100000001b3); } h }
pub fn dv(v: &Option<Vec<u8>>) -> String {
    match v { None => "None".into(), Some(b) => format!("Some(len {} stamp {:?})", b.len(), b.get(..4).map(|s| u32::from_le_bytes(s.try_into().unwrap()))) }
}

pub fn run_history(scen: &Scenario, dir: PathBuf, rep: Shared, disk: Arc<SimDisk>) {
    let res = match scen.hasher {
        Hasher::Blake3 => { let mut e = Exec::<Blake3Hasher>::new(scen, dir, rep.clone(), disk); let r = e.run_steps(); let r2 = r.and_then(|_| crate::crash::finish(&mut e)); drop(e); r2 }
        Hasher::Sha2 => { let mut e = Exec::<Sha2Hasher>::new(scen, dir, rep.clone(), disk); let r = e.run_steps(); let r2 = r.and_then(|_| crate::crash::finish(&mut e)); drop(e); r2 }
    };
    if let Err(Viol(v)) = res { rep.lock().unwrap().violations.push(v); }
}
