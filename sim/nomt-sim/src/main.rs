mod conc;
mod crash;
mod decoder;
mod disk;
mod exec;
mod gen;
mod master;
mod model;
mod props;
mod rng;
mod rules;
mod runner;
mod scenario;

use gen::Tier;

/// Pin std's `RandomState` (and everything else that asks the OS for entropy) for the whole
/// process: std resolves `getrandom` weakly, the harness binary exports this one.
#[no_mangle]
pub extern "C" fn getrandom(buf: *mut u8, len: usize, _flags: u32) -> isize {
    unsafe { for i in 0..len { *buf.add(i) = (i as u8).wrapping_mul(31).wrapping_add(7); } }
    len as isize
}

fn arg(args: &[String], name: &str) -> Option<String> { args.iter().position(|a| a == name).and_then(|i| args.get(i + 1).cloned()) }

fn main() {
    let args: Vec<String> = std::env::args().collect();
    let cmd = args.get(1).map(|s| s.as_str()).unwrap_or("");
    let tier = match arg(&args, "--tier").or_else(|| std::env::var("VERIF_TIER").ok()).as_deref() { Some("thorough") => Tier::Thorough, _ => Tier::Quick };
    match cmd {
        "gen" => {
            let prop = arg(&args, "--prop").unwrap();
            let seed: u64 = arg(&args, "--seed").unwrap().parse().unwrap();
            println!("{}", serde_json::to_string_pretty(&props::make(&prop, tier, seed)).unwrap());
        }
        "run" => {
            runner::install_panic_hook();
            let scen: scenario::Scenario = if let Some(f) = arg(&args, "--scenario") {
                serde_json::from_str(&std::fs::read_to_string(f).unwrap()).unwrap()
            } else {
                let prop = arg(&args, "--prop").unwrap();
                let seed: u64 = arg(&args, "--seed").unwrap().parse().unwrap();
                props::make(&prop, tier, seed)
            };
            let rep = runner::run_scenario(&scen);
            println!("RESULT {}", serde_json::to_string(&rep).unwrap());
        }
        "check" => { std::process::exit(master::check(&args[2], tier, &args)); }
        "replay" => { std::process::exit(master::replay(&args[2])); }
        "minimise" => { std::process::exit(master::minimise_file(&args[2], arg(&args, "--secs").and_then(|s| s.parse().ok()).unwrap_or(240))); }
        _ => { eprintln!("usage: nomt-sim check <Cxx> [--tier quick|thorough] | replay <file> | run ... | gen ..."); std::process::exit(2); }
    }
}
