fn main() {
    println!("cargo:rustc-link-arg-bins=-Wl,--export-dynamic-symbol=getrandom");
}
