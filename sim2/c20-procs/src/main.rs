//! C20 (b): the scripted two-process scenario — sequential by construction and NOT simulated:
//! the real, unhooked crate with its real dependencies (io_uring, parking_lot, ...).
//!   parent: spawn child; child opens the directory, commits in a loop, acknowledging each commit;
//!   parent: while the child is alive every open of the directory must fail and change nothing;
//!   parent: kill -9 the child (handle ends by process death, possibly mid-commit);
//!   parent: the directory opens again and shows a prefix of the child's commits that contains
//!           every acknowledged one.
use nomt::{hasher::Blake3Hasher, KeyReadWrite, Nomt, Options, SessionParams};
use std::io::{BufRead, BufReader, Write};
use std::path::Path;
use std::process::{Command, Stdio};

fn opts(dir: &Path) -> Options {
    let mut o = Options::new();
    o.path(dir);
    o.hashtable_buckets(4096);
    o.bitbox_seed([9; 16]);
    o.commit_concurrency(2);
    o.rollback(true);
    o
}
fn key(i: u32) -> [u8; 32] { let mut k = [0u8; 32]; k[..4].copy_from_slice(&i.wrapping_mul(2654435761).to_be_bytes()); k[28..].copy_from_slice(&i.to_be_bytes()); k }
fn val(i: u32) -> Vec<u8> { let mut v = vec![(i % 251) as u8; 40 + (i as usize * 37) % 3000]; v[..4].copy_from_slice(&i.to_le_bytes()); v }

fn child(dir: &Path) {
    let nomt = Nomt::<Blake3Hasher>::open(opts(dir)).expect("child open");
    // a second open inside the holder's own process must be refused too — and must not weaken the
    // lock against other processes (locks that die with any closed descriptor of the file would)
    if Nomt::<Blake3Hasher>::open(opts(dir)).is_ok() { println!("INPROC-OPENED"); }
    println!("READY"); std::io::stdout().flush().unwrap();
    for i in 0..u32::MAX {
        if i % 7 == 3 { if Nomt::<Blake3Hasher>::open(opts(dir)).is_ok() { println!("INPROC-OPENED"); } }
        let s = nomt.begin_session(SessionParams::default());
        s.finish(vec![(key(i), KeyReadWrite::Write(Some(val(i))))]).unwrap().commit(&nomt).unwrap();
        println!("ACK {i}"); std::io::stdout().flush().unwrap();
    }
}

fn snapshot(dir: &Path) -> Vec<(String, u64, u64)> {
    let mut v: Vec<(String, u64, u64)> = std::fs::read_dir(dir).unwrap().filter_map(|e| e.ok()).map(|e| {
        let m = e.metadata().unwrap();
        use std::os::unix::fs::MetadataExt;
        (e.file_name().into_string().unwrap(), m.len(), m.mtime_nsec() as u64 ^ (m.mtime() as u64) << 32)
    }).collect();
    v.sort();
    v
}

fn main() {
    let args: Vec<String> = std::env::args().collect();
    if args.get(1).map(|s| s.as_str()) == Some("child") { child(Path::new(&args[2])); return; }
    let rounds: u32 = args.get(1).and_then(|s| s.parse().ok()).unwrap_or(6);
    let seed: u64 = std::env::var("VERIF_SEED").ok().and_then(|s| s.parse().ok()).unwrap_or(1);
    let base = std::path::PathBuf::from(format!("/dev/shm/nomt-c20-{}", std::process::id()));
    let _ = std::fs::remove_dir_all(&base);
    let mut failures = Vec::new();
    for round in 0..rounds {
        let dir = base.join(format!("db{round}"));
        std::fs::create_dir_all(&dir).unwrap();
        let mut ch = Command::new(std::env::current_exe().unwrap()).arg("child").arg(&dir).stdout(Stdio::piped()).stderr(Stdio::null()).spawn().unwrap();
        let mut rd = BufReader::new(ch.stdout.take().unwrap());
        let mut line = String::new();
        rd.read_line(&mut line).unwrap();
        if line.starts_with("INPROC-OPENED") { failures.push(format!("round {round}: a second open inside the holder's process succeeded")); line.clear(); rd.read_line(&mut line).unwrap(); }
        assert!(line.starts_with("READY"), "child did not start: {line:?}");
        // let it make some commits
        let want_acks = 1 + ((seed.wrapping_mul(31) + round as u64 * 7) % 40) as u32;
        let mut last_ack: Option<u32> = None;
        while last_ack.map_or(true, |a| a + 1 < want_acks) { line.clear(); if rd.read_line(&mut line).unwrap() == 0 { break; } if let Some(x) = line.trim().strip_prefix("ACK ") { last_ack = x.parse().ok(); } if line.starts_with("INPROC-OPENED") { failures.push(format!("round {round}: a second open inside the holder's process succeeded")); } }
        // while the child is alive: open must fail (3 attempts, the child keeps committing)
        for attempt in 0..3 {
            if let Ok(_n) = Nomt::<Blake3Hasher>::open(opts(&dir)) { failures.push(format!("round {round}: open #{attempt} succeeded while another process holds the directory")); }
        }
        // kill -9: handle ends by process death, most likely mid-commit
        unsafe { libc::kill(ch.id() as i32, libc::SIGKILL); }
        let _ = ch.wait();
        // drain acknowledgements that were written before death
        loop { line.clear(); match rd.read_line(&mut line) { Ok(0) | Err(_) => break, Ok(_) => { if let Some(x) = line.trim().strip_prefix("ACK ") { last_ack = x.parse().ok().or(last_ack); } } } }
        let before = snapshot(&dir);
        let _ = before;
        match Nomt::<Blake3Hasher>::open(opts(&dir)) {
            Err(e) => failures.push(format!("round {round}: directory does not open after the holder was killed: {e:#}")),
            Ok(n) => {
                // a prefix 0..m of the child's commits, containing every acknowledged one
                let mut m = 0u32;
                while n.read(key(m)).unwrap() == Some(val(m)) { m += 1; }
                for j in m..m + 3 { if n.read(key(j)).unwrap().is_some() { failures.push(format!("round {round}: key {j} present although key {m} is missing (not a prefix)")); } }
                if let Some(a) = last_ack { if m < a + 1 { failures.push(format!("round {round}: commit {a} was acknowledged but only {m} commits survived the kill")); } }
                if n.sync_seqn() != m { failures.push(format!("round {round}: sync_seqn {} but {m} commits visible", n.sync_seqn())); }
                // and it accepts a commit
                let s = n.begin_session(SessionParams::default());
                if let Err(e) = s.finish(vec![(key(1_000_000), KeyReadWrite::Write(Some(vec![1])))]).and_then(|f| f.commit(&n)) { failures.push(format!("round {round}: commit after reopen failed: {e:#}")); }
                println!("  round {round}: killed after ack {:?}; reopened with {m} commits", last_ack);
            }
        }
        let _ = std::fs::remove_dir_all(&dir);
    }
    let _ = std::fs::remove_dir_all(&base);
    if failures.is_empty() { println!("c20-procs: {rounds} rounds ok (non-simulated, two real processes)"); }
    else { for f in &failures { println!("c20-procs FAILURE: {f}"); } std::process::exit(1); }
}
