//! Replays the fault-free part of a simulator scenario (commits, reopens, rollbacks) against the
//! REAL, unhooked crate (io_uring, real threads) and compares every read with a BTreeMap model.
//! Used to confirm findings outside the simulator: `real-replay <replay.json>`.
use nomt::{hasher::{Blake3Hasher, Sha2Hasher}, HashAlgorithm, KeyReadWrite, Nomt, Options, SessionParams};
use serde_json::Value;
use std::collections::BTreeMap;

fn mix(mut z: u64) -> u64 { z = z.wrapping_add(0x9E3779B97F4A7C15); z = (z ^ (z >> 30)).wrapping_mul(0xBF58476D1CE4E5B9); z = (z ^ (z >> 27)).wrapping_mul(0x94D049BB133111EB); z ^ (z >> 31) }
fn value_bytes(key: &[u8; 32], len: u32, stamp: u32) -> Vec<u8> {
    let mut out = Vec::with_capacity(len as usize);
    let mut header = Vec::with_capacity(36);
    header.extend_from_slice(&stamp.to_le_bytes());
    header.extend_from_slice(key);
    let mut x = mix(stamp as u64 ^ u64::from_le_bytes(key[..8].try_into().unwrap()));
    while out.len() < len as usize {
        if out.len() < header.len() { out.push(header[out.len()]); continue; }
        if out.len() % 8 == 0 { x = mix(x); }
        out.push((x >> ((out.len() % 8) * 8)) as u8);
    }
    out
}
fn unhex(s: &str) -> [u8; 32] { let mut k = [0u8; 32]; for i in 0..32 { k[i] = u8::from_str_radix(&s[2 * i..2 * i + 2], 16).unwrap(); } k }
fn opts(dir: &std::path::Path, o: &Value) -> Options {
    let mut x = Options::new();
    x.path(dir);
    x.commit_concurrency(o["commit_concurrency"].as_u64().unwrap() as usize);
    x.io_workers(o["io_workers"].as_u64().unwrap() as usize);
    x.warm_up(o["warm_up"].as_bool().unwrap());
    x.page_cache_size(o["page_cache_mb"].as_u64().unwrap() as usize);
    x.leaf_cache_size(o["leaf_cache_mb"].as_u64().unwrap() as usize);
    x.page_cache_upper_levels(o["upper_levels"].as_u64().unwrap() as usize);
    x.prepopulate_page_cache(o["prepopulate"].as_bool().unwrap());
    x.hashtable_buckets(o["buckets"].as_u64().unwrap() as u32);
    x.bitbox_seed([7; 16]);
    x.preallocate_ht(false);
    x.rollback(o["rollback"].as_bool().unwrap());
    x.max_rollback_log_len(o["max_rollback_log_len"].as_u64().unwrap() as u32);
    x
}

fn run<H: HashAlgorithm>(scen: &Value, dir: &std::path::Path) -> Result<usize, String> {
    let mut cur_opts = scen["opts"].clone();
    let mut nomt = Nomt::<H>::open(opts(dir, &cur_opts)).map_err(|e| format!("open: {e:#}"))?;
    let mut model: BTreeMap<[u8; 32], Vec<u8>> = BTreeMap::new();
    let mut history: Vec<BTreeMap<[u8; 32], Vec<u8>>> = Vec::new();
    let mut touched: std::collections::BTreeSet<[u8; 32]> = Default::default();
    let mut done = 0;
    for (i, st) in scen["steps"].as_array().unwrap().iter().enumerate() {
        if let Some(c) = st.get("Commit") {
            let s = nomt.begin_session(SessionParams::default());
            let mut actuals = Vec::new();
            let mut next = model.clone();
            for it in c["batch"]["items"].as_array().unwrap() {
                let k = unhex(it[0].as_str().unwrap());
                touched.insert(k);
                let a = &it[1];
                let spec = |v: &Value| -> Option<Vec<u8>> { if v.is_null() { None } else { Some(value_bytes(&k, v["len"].as_u64().unwrap() as u32, v["stamp"].as_u64().unwrap() as u32)) } };
                if a.is_string() { actuals.push((k, KeyReadWrite::Read(model.get(&k).cloned()))); }
                else if let Some(v) = a.get("Write") { let nv = spec(v); match &nv { Some(b) => { next.insert(k, b.clone()); } None => { next.remove(&k); } } actuals.push((k, KeyReadWrite::Write(nv))); }
                else if let Some(v) = a.get("Rtw") { let nv = spec(v); match &nv { Some(b) => { next.insert(k, b.clone()); } None => { next.remove(&k); } } actuals.push((k, KeyReadWrite::ReadThenWrite(model.get(&k).cloned(), nv))); }
            }
            s.finish(actuals).map_err(|e| format!("step {i}: finish: {e:#}"))?.commit(&nomt).map_err(|e| format!("step {i}: commit: {e:#}"))?;
            history.push(model.clone());
            model = next;
        } else if let Some(r) = st.get("Rollback") {
            let n = r["n"].as_u64().unwrap() as usize;
            if nomt.rollback(n).is_ok() { if n <= history.len() { model = history[history.len() - n].clone(); history.truncate(history.len() - n); } else { return Err(format!("step {i}: rollback({n}) succeeded beyond history")); } }
        } else if let Some(r) = st.get("Reopen") {
            drop(nomt);
            cur_opts = r["opts"].clone();
            nomt = Nomt::<H>::open(opts(dir, &cur_opts)).map_err(|e| format!("step {i}: reopen: {e:#}"))?;
        } else { continue; }
        for k in &touched { let got = nomt.read(*k).map_err(|e| format!("{e:#}"))?; if got.as_ref() != model.get(k) { return Err(format!("step {i}: read of {:02x?}.. = {:?} bytes, model {:?} bytes", &k[..4], got.map(|v| v.len()), model.get(k).map(|v| v.len()))); } }
        done = i + 1;
    }
    Ok(done)
}

fn main() {
    let f = std::env::args().nth(1).expect("usage: real-replay <replay.json>");
    let doc: Value = serde_json::from_str(&std::fs::read_to_string(&f).unwrap()).unwrap();
    let scen = if doc.get("scenario").is_some() { doc["scenario"].clone() } else { doc };
    let dir = std::path::PathBuf::from(format!("/dev/shm/nomt-real-replay-{}", std::process::id()));
    let _ = std::fs::remove_dir_all(&dir);
    let r = std::panic::catch_unwind(|| if scen["hasher"] == "Sha2" { run::<Sha2Hasher>(&scen, &dir) } else { run::<Blake3Hasher>(&scen, &dir) });
    let _ = std::fs::remove_dir_all(&dir);
    match r {
        Ok(Ok(n)) => println!("real-replay: {n} steps executed on the real crate, all reads equal the model"),
        Ok(Err(e)) => { println!("real-replay: DIVERGENCE on the real crate: {e}"); std::process::exit(1); }
        Err(_) => { println!("real-replay: the real crate PANICKED (see stderr)"); std::process::exit(1); }
    }
}
