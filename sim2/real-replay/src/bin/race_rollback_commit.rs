//! Real-crate check of a C15 finding: a commit prepared right after a concurrent rollback(2).
use nomt::{hasher::Blake3Hasher, KeyReadWrite, Nomt, Options, SessionParams};
use std::sync::{Arc, Barrier};
fn unhex(s: &str) -> [u8; 32] { let mut k = [0u8; 32]; for i in 0..32 { k[i] = u8::from_str_radix(&s[2 * i..2 * i + 2], 16).unwrap(); } k }
fn opts(dir: &std::path::Path) -> Options { let mut o = Options::new(); o.path(dir); o.hashtable_buckets(512); o.bitbox_seed([3; 16]); o.preallocate_ht(false); o.rollback(true); o.max_rollback_log_len(5); o.commit_concurrency(1); o }
fn commit(n: &Nomt<Blake3Hasher>, items: Vec<([u8; 32], Option<Vec<u8>>)>) -> [u8; 32] {
    let s = n.begin_session(SessionParams::default());
    let f = s.finish(items.into_iter().map(|(k, v)| (k, KeyReadWrite::Write(v))).collect()).unwrap();
    let r = f.root().into_inner();
    f.commit(n).unwrap();
    r
}
fn main() {
    let a = unhex("2b3888925f595988088ef19592f21f6af56b938eacfad6b4b837e06306e836aa");
    let b = unhex("32c8498b7a21b7606e454151cdbd11e87cfb2e17e71dce84207b8f3cc3578d4a");
    let c = unhex("32c8498b7e21b7606e454151cdbd11e87cfb2e17e71dce84207b8f3cc3578d49");
    let base = std::path::PathBuf::from(format!("/dev/shm/nomt-race-{}", std::process::id()));
    let _ = std::fs::remove_dir_all(&base);
    // reference root of {a, c}
    let refdir = base.join("ref");
    let want = { let n = Nomt::<Blake3Hasher>::open(opts(&refdir)).unwrap(); commit(&n, vec![(a, Some(vec![1; 1332])), (c, Some(vec![6; 9]))]) };
    let mut bad = 0;
    let rounds: usize = std::env::args().nth(1).and_then(|s| s.parse().ok()).unwrap_or(300);
    for round in 0..rounds {
        let dir = base.join(format!("db{round}"));
        let n = Arc::new(Nomt::<Blake3Hasher>::open(opts(&dir)).unwrap());
        commit(&n, vec![(a, Some(vec![1; 1332]))]);
        commit(&n, vec![(b, Some(vec![2; 9]))]);
        commit(&n, vec![]);
        let bar = Arc::new(Barrier::new(2));
        let (n1, b1) = (n.clone(), bar.clone());
        let t = std::thread::spawn(move || { b1.wait(); n1.rollback(2).unwrap(); });
        bar.wait();
        if round % 3 == 1 { std::thread::yield_now(); } else if round % 3 == 2 { std::thread::sleep(std::time::Duration::from_micros(200 * (round % 7) as u64)); }
        // prepare a changeset: begin_session blocks while the rollback holds the write lock
        let got = loop {
            let s = n.begin_session(SessionParams::default());
            let f = s.finish(vec![(c, KeyReadWrite::Write(Some(vec![6; 9])))]).unwrap();
            let r = f.root().into_inner();
            if f.commit(&*n).is_ok() { break r; }
        };
        t.join().unwrap();
        // only rounds in which the commit came after the rollback are comparable
        let after_rollback = n.read(b).unwrap().is_none();
        if after_rollback && got != want { bad += 1; if bad <= 3 { println!("round {round}: root of the commit prepared after rollback(2) differs from the root of the same key set in a fresh store"); } }
        drop(n);
        let _ = std::fs::remove_dir_all(&dir);
    }
    let _ = std::fs::remove_dir_all(&base);
    println!("race_rollback_commit: {bad} bad of {rounds} rounds");
    if bad > 0 { std::process::exit(1); }
}
