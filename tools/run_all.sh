#!/bin/bash
# Runs every registered check (quick by default) and prints one summary line per property.
TIER=${1:-quick}
shift
# further arguments are handed to every check (e.g. --budget 1000)
cd "$(dirname "$0")/.."
for p in $(python3 -c "import json;print(' '.join(c['property_id'] for c in json.load(open('MANIFEST.json'))['checks']))"); do
  s=$(date +%s)
  out=$(sim/check $p --tier $TIER "$@" 2>&1); rc=$?
  e=$(date +%s)
  echo "$p rc=$rc $((e-s))s :: $(echo "$out" | grep -E '^property=|VIOLATION|KNOWN-FINDING|HARNESS' | tr '\n' ' ' | cut -c1-300)"
  echo "$out" | grep -E "^  class=" | head -5
done
