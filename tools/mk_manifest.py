#!/usr/bin/env python3
"""Regenerates /verif/MANIFEST.json from the table below (kept next to the checks it describes)."""
import json, subprocess, os
ROOT = os.path.dirname(os.path.dirname(os.path.abspath(__file__)))

SIM = "deterministic simulation: the whole nomt crate under a seeded scheduler (shuttle) with a simulated disk; seeded search over histories, schedules and fault plans (crash / power-loss images, failing, short and interrupted I/O); the replay files of earlier findings run first as a regression corpus"

CHECKS = {
 "C01": ("exploration", "3.C01", "seeded histories (commits, overlays, rollbacks, reopens; adversarial key geometry; value sizes 0..100k straddling the leaf/overflow limits) executed against the real crate under the controlled scheduler; after every step every touched key is read directly and through a fresh session and compared with a BTreeMap model", "model = BTreeMap; values are a fixed function of (key, stamp) so each read is attributable to one write; sampling, not proof"),
 "C02": ("exploration", "3.C02", "same engine; after every finish/commit/overlay/reopen the reported root is compared with a 40-line reference trie built from scratch over the model (uses only the hasher's hash_value/hash_leaf/hash_internal)", "reference trie shares only the hasher with the code under test"),
 "C05": ("exploration", "3.C05", "sessions (plain, on overlay chains, after reopen with cold/tiny caches) prove present keys, absent keys diverging at seeded depths and keys under terminators; each proof must verify against the base root, confirm exactly the model's answer and have the terminal and sibling list the reference trie predicts", "proof shape is judged against the reference trie, not only by the verifier"),
 "C06": ("exploration", "3.C06", "witness-enabled sessions with batches mixing reads/writes/read-then-writes/deletes under 1..64 commit workers and many worker interleavings; stateless replay of the witness (every path verifies, every read attests the model's value, every write is covered, verify_update = store root = reference root)", "the scheduler decides the completion order of the update workers"),
 "C07": ("exploration", "3.C07", "store-emitted path proofs aggregated into multi-proofs inside simulated runs; verify, per-key confirm_* equality with the path proofs (with and without index), verify_multi_proof_update = verify_update = root the store reports after really committing that write set. Scoped: only tries and write sets that the simulated store produces (DESIGN §3 C07)", "aggregation and verification are pure; simulation contributes the third party of the statement (the store)"),
 "C09": ("exploration", "3.C09", "histories over {commit, overlay commit, rollback(n), reopen} with max_rollback_log_len in {1,2,3,5,100} and the segment-size knob at 1..3 records; rollback(n<=retained) must succeed and restore the model's state n commits back, unservable requests must fail without effect and without poisoning, and what every rollback(1..retained) would restore is probed on copies of the directory", "the model keeps every past state, so a rollback that succeeds 'by accident' with wrong data is caught"),
 "C10": ("exploration", "3.C10", "drop+reopen with freshly drawn options injected at seeded history positions: root, every value, sync_seqn and hash-table occupancy equal the pre-close observation, proofs verify, and the rest of the history (commits, rollbacks within the retained window) behaves as in the model, i.e. as if never closed", "rollbacks beyond the retained window are accepted iff they restore the true state (DESIGN §3a)"),
 "C11": ("exploration", "3.C11", "generated overlay trees (chains, forks, ancestors dropped/committed/rejected while descendants live): sessions on a chain read/prove/root as 'chain committed'; committing in order equals committing the batches directly incl. rollback history; incomplete chains and out-of-order commits must be refused", "abandoned forks (base invalidated by a competing commit) are committed or dropped but not read through (outside the API contract)"),
 "C12": ("exploration", "3.C12", "competing changesets (finished sessions and overlays) prepared on one base and committed in seeded orders and flavours; every rejected attempt and every non-blocking attempt made while a session is alive must leave root, sync_seqn, all values and what rollback(1..retained) restores exactly as in the model", "rollback history is probed on copies of the directory"),
 "C13": ("exploration", "3.C13", "eight runs share one history (keys, batches, steps) and differ in everything the results must not depend on (workers 1..64, io workers, caches, warm-up, warm/preserve hints, buckets/seed, prepopulation, hasher, scheduler kind and seed); every root/value/proof/witness verdict must equal the model, hence each other", "all runs are compared with the same reference, which implies pairwise equality per hasher"),
 "C03": ("fault_enumeration", "3.C03", "a dry run lists the mutating I/O events of a target operation (open of an existing store, session commit, overlay commit, rollback) after a state-building prefix; a process-crash image (sparse copy of the directory; torn multi-page appends) is forked before each chosen event (quick: ~14 incl. all boundaries next to meta/WAL/HT/segment events; thorough: every boundary up to 400), reopened with hooks on and must show exactly the old or the new state as a whole (root, every value, sync_seqn, proofs), accept a further commit per the model; recovery of an image forks nested images (depth <= 3)", "page cache survives a process crash; creation of a store is not covered (DESIGN 3a)"),
 "C04": ("fault_enumeration", "3.C04", "same crash points, but power-loss images: SimDisk keeps a durable shadow (only what a completed fsync of the file / directory covered) and builds images = shadow + a chosen subset of unsynced operations (all lost, exactly one lost, exactly one kept, random subsets; appends cut at page-aligned prefixes; directory operations as a prefix); images taken right after an operation returned must show the new state; images taken right after recovery returned must still be old-or-new; plus ordering rules r1-r3 over every sync's and every recovery's I/O trace", "fault model as stated in the property: in-place page writes lost independently, size-changing and directory operations survive as a prefix"),
 "C14": ("fault_enumeration", "3.C14", "for chosen (quick) or all (thorough, <=150) mutating events of a target commit / overlay commit / rollback the hook answers with EIO / ENOSPC once or persistently: the call must return Err (never Ok, never a hang: deadlock detector and step cap), is_poisoned() must be true, a further commit must be refused, and after drop + reopen without faults the state is exactly old or new; short and interrupted page writes must be absorbed; bucket exhaustion on 64..1000-bucket tables has the same obligations", "read failures and failures during open/create are not injected (DESIGN 3a); background workers of the failed sync are allowed to finish before the handle is dropped"),
 "C16": ("exploration", "3.C16", "an independent decoder of meta/bbn/ln/ht/rollback files (written from the documented layouts, no shared code) runs after every step of seeded histories: separators strictly ordered within and across branch pages, leaves partition the key space, every model key in exactly one leaf with the model's bytes (overflow chains complete, hash right), no page used twice; every full bucket holds a page whose label is reachable by its probe sequence exactly once; every reachable node of every stored page equals the reference trie at that position; a page with content is stored xor marked elided in its stored parent; no stale pages", "page labels are accepted in the form the tree writes them (id << 6)"),
 "C17": ("exploration", "3.C17", "before every sync the decoder computes what the durable image references (leaf, overflow, branch and free-list pages, the hash table, live rollback segments); every write / set_len / unlink event of the sync that starts before the meta fsync completed must miss that set, under all worker interleavings the scheduler picks", "events are observed at the hook sites of the guarded build"),
 "C19": ("exploration", "3.C19", "page accounting on the decoder's output after every step: used + free-listed + free-list pages = [1, bump) for ln and bbn, nothing both free and used; reported hash-table occupancy = full buckets = stored pages (0 when empty); fill / overwrite / empty cycles with values flipping between in-leaf and overflow form", "frontier growth over many cycles is additionally bounded in the thorough tier"),
 "C15": ("exploration", "3.C15", "1-3 reader tasks (sessions with reads and proofs, held across scheduling points) and 1-2 writer tasks (blocking / non-blocking session commits with retries, overlay commits, rollbacks) on one handle under random and PCT schedules; every call is stamped at invocation and return with the simulator's global event counter and the recorded history is checked for linearizability (Wing-Gong search with memoisation) against a sequential model: session snapshots equal the state at their start, no commit or rollback takes effect while any session is alive, exactly the changesets whose base is current win, non-blocking commits are handed back only when something else holds the lock, rollbacks within the retained window succeed; deadlocks and livelocks are caught by the scheduler; the final store (also after reopen) equals the fold of the winning changesets", "atomics are not scheduling points; histories are kept below 60 events so the search stays tractable"),
 "C20": ("exploration", "3.C20", "2-3 tasks race Nomt::open on one directory (existing store, empty directory, missing directory) at seeded points; winners hold the handle, may commit (optionally with an injected failing commit, i.e. poisoned) and drop: never two live handles, a refused open issues no mutating file operation, no I/O event appears after a handle's drop returned, and the directory opens again with the committed state. Handle death by process kill is covered by the sequential scripted scenario sim/c20-procs (real crate, real io_uring, two processes), reported as non-simulated", "caller-task panic is not simulated (shuttle cannot continue after a task panic)"),
}

NA = [
 ("C08", "pure function of (proof object, root, statement): no schedule, clock, I/O, crash or interleaving in it; mutating honest proofs would be input generation under another name (DESIGN §4)"),
 ("C18", "totality of pure verifier functions over arbitrary inputs: nothing for a simulator to schedule or fault (DESIGN §4)"),
]
PENDING = {
}

def main():
    hooks = subprocess.run(["git", "-C", "/repo", "log", "--format=%H %s"], capture_output=True, text=True).stdout.splitlines()
    hook_commits = [l.split()[0] for l in hooks if "verif hooks" in l or "verif:" in l]
    checks = []
    for pid, (level, ref, text, note) in sorted(CHECKS.items()):
        checks.append({
            "property_id": pid,
            "quick_cmd": f"sim/check {pid} --tier quick",
            "thorough_cmd": f"sim/check {pid} --tier thorough",
            "evidence_file": f"/verif/evidence/{pid}.json",
            "replay_cmd_template": "sim/check --replay {path}",
            "engine": "nomt-sim",
            "level_claimed": {"category": level, "text": text, "design_ref": ref},
            "level_note": note,
            "technique": SIM,
        })
    na = [{"property_id": p, "reason": r} for p, r in NA] + [{"property_id": p, "reason": r} for p, r in sorted(PENDING.items())]
    m = {
        "version": 1,
        "setup_cmd": "cd sim && CARGO_NET_OFFLINE=true cargo build --release --offline && cd ../sim2 && CARGO_NET_OFFLINE=true cargo build --release --offline",
        "hooks": {
            "guard": "--cfg nomt_verif",
            "enable": "built only through /verif/sim (shadow manifest sim/nomt-shadow compiles /repo/nomt/src against shim crates; sim/.cargo/config.toml sets rustflags --cfg nomt_verif)",
            "baseline_off_cmd": "cd /repo && cargo nextest run --workspace --no-fail-fast --tool-config-file pb:/w/lib/nextest.toml --profile pb --test-threads 8 --offline; rc=$?; rm -rf /repo/nomt/test; exit $rc",
            "source_commits": hook_commits,
            "add_only": True,
        },
        "engines": [{"name": "nomt-sim", "path": "sim/nomt-sim", "serves_properties": sorted(CHECKS.keys()), "kind_free_text": "deterministic simulator: shuttle-scheduled nomt + SimDisk (durable shadow, crash/power-loss images, fault injection) + model, reference trie, on-disk decoder"}],
        "checks": checks,
        "not_applicable": na,
        "notes": "Every check rebuilds the simulator from /repo's working tree first (sim/check). VERIF_SEED selects the batch (default 1). Exit 0 = held on everything explored; exit 1 + 'VIOLATION property=<id> replay=<path>'; exit 2 = harness error. known_findings.json lists fixed findings (they suppress nothing).",
    }
    json.dump(m, open(os.path.join(ROOT, "MANIFEST.json"), "w"), indent=1)
    print("checks:", len(checks), "n/a:", len(na))

if __name__ == "__main__":
    main()
