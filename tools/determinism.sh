#!/bin/bash
# Determinism batch: N run seeds x 2 fresh processes each (optionally with different parallelism):
# the RESULT line (all counters, event-order signature, sync-op count) and the full sync-op trace
# must be byte-identical.
PROP=${1:-C01}; N=${2:-100}; BIN=/verif/sim/target/release/nomt-sim
fail=0
run() { # seed
  s=$1
  a=$(SIM_TRACE=/dev/shm/det-$s-a.txt $BIN run --prop $PROP --seed $s 2>/dev/null | md5sum)
  b=$(SIM_TRACE=/dev/shm/det-$s-b.txt $BIN run --prop $PROP --seed $s 2>/dev/null | md5sum)
  ta=$(md5sum < /dev/shm/det-$s-a.txt); tb=$(md5sum < /dev/shm/det-$s-b.txt)
  rm -f /dev/shm/det-$s-a.txt /dev/shm/det-$s-b.txt
  if [ "$a" != "$b" ] || [ "$ta" != "$tb" ]; then echo "NONDETERMINISTIC seed=$s result:$a/$b trace:$ta/$tb"; return 1; fi
  return 0
}
export -f run; export PROP BIN
seq 1 $N | xargs -P ${JOBS:-16} -I{} bash -c 'run {}' | tee /dev/shm/det.out
if grep -q NONDET /dev/shm/det.out; then echo "determinism: FAILED"; exit 1; else echo "determinism: $N seeds x 2 processes identical ($PROP)"; fi
