#!/bin/bash
# tools/try_seeded.sh <seeded-dir> <Cxx> [<Cyy> ...]
# Applies a seeded change to /repo, runs the given checks (quick tier) against it and undoes it
# straight afterwards. Prints one line per check: detected / missed.
d=$1; shift
cd /repo || exit 2
if ! git diff --quiet; then echo "/repo has uncommitted changes"; exit 2; fi
git apply "$d/patch.diff" || { echo "patch does not apply"; exit 2; }
trap 'git -C /repo checkout -- . ' EXIT
for p in "$@"; do
  s=$(date +%s)
  out=$(cd /verif && sim/check $p --tier ${TIER:-quick} ${EXTRA:-} 2>&1); rc=$?
  e=$(date +%s)
  cls=$(echo "$out" | grep -E "^  class=" | sed 's/ detail=.*//' | sort | uniq -c | tr '\n' ';')
  if [ $rc -eq 1 ]; then echo "$(basename $d) $p DETECTED in $((e-s))s: $cls"; echo "$out" | grep -E "^  class=" | head -2 | cut -c1-400;
  elif [ $rc -eq 0 ]; then echo "$(basename $d) $p missed ($((e-s))s)";
  else echo "$(basename $d) $p HARNESS rc=$rc"; echo "$out" | tail -5; fi
done
